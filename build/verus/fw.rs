// GENERATED FILE - do not edit.  Produced by extract/extract.py from contracts/verus/fw.tmpl and
// the current working tree of /repo.  Lines that come from /repo are byte-identical except for
// the rules R1-R7 / I4 documented in extract.py.
#![feature(sized_hierarchy)]
#![allow(unused_imports, dead_code, unused_variables, unused_mut, unused_assignments)]
use vstd::prelude::*;

verus! {

// ---------------------------------------------------------------- shims (R4)
pub mod shims {
    use super::*;
    // stands for rand_core::RngCore: an arbitrary stream of words, no postconditions
    pub trait RngCore {
        fn next_u32(&mut self) -> u32;
        fn next_u64(&mut self) -> u64;
    }
}
pub use crate::shims::RngCore;

// R8: core::convert::AsRef is assumed pure: as_ref() returns the same slice on every call.
#[verifier::external_trait_specification]
#[verifier::external_trait_extension(AsRefSpec via AsRefSpecImpl)]
pub trait ExAsRef<T: core::marker::PointeeSized>: core::marker::PointeeSized {
    type ExternalTraitSpecificationFor: core::convert::AsRef<T>;
    spec fn as_ref_spec(&self) -> &T;
    fn as_ref(&self) -> (r: &T)
        ensures r == self.as_ref_spec();
}

// R9: <[T]>::fill(v) makes every element equal to v (std semantics, assumed; used with v = None only)
pub assume_specification<T: Clone>[ <[T]>::fill ](s: &mut [T], v: T)
    ensures
        final(s)@.len() == old(s)@.len(),
        forall|i: int| 0 <= i < old(s)@.len() ==> final(s)@[i] == v;

pub mod constants {
    use super::*;
// The number of [`Event`](crate::event)s in the framework.
pub const EVENT_NUM: usize = 13;
// The maximum possible sampled limit of a [`State`](crate::state). This is the
// default if no limit dist is specified (in practice, the same as no limit).
pub(crate) const STATE_LIMIT_MAX: u64 = u64::MAX;
// A pseudo-state that means the [`Machine`](crate::Machine) should completely
// stop.
pub const STATE_END: usize = u32::MAX as usize;
// A pseudo-state that triggers a Signal [`Event`](crate::event) in all other
// running machines.
pub const STATE_SIGNAL: usize = STATE_END - 1;
// The maximum number of [`State`](crate::state)s a [`Machine`](crate::Machine)
// can have.
pub const STATE_MAX: usize = STATE_SIGNAL - 1;
}

pub mod time {
    use super::*;
use std::ops::AddAssign;
    use vstd::std_specs::ops::*;
    use vstd::std_specs::cmp::*;
// Trait representing instants in time. Allows using maybenot frameworks with
// custom time sources. If you want to use maybenot with a different time source
// than `std::time::Instant`, implement this trait for your instant type, and the
// [`Duration`] trait for your corresponding duration type.
pub trait Instant: Clone + Copy {
    type Duration: Duration;

    // Returns the amount of time elapsed from another instant to this one.
    //
    // Should return a zero duration if `earlier` is later than `self`
    fn saturating_duration_since(&self, earlier: Self) -> (r: Self::Duration)
        ensures
            r.units() == (if self.t() >= earlier.t() { self.t() - earlier.t() } else { 0 }),
    ;
    // ghost: position of this instant on an abstract integer time line (any order, no monotonicity)
    spec fn t(&self) -> int;
}
pub trait Duration: Clone + Copy + AddAssign + PartialOrd {
    // Creates a new duration, spanning no time.
    fn zero() -> (r: Self)
        ensures r.units() == 0,
    ;

    // Creates a new duration from the specified number of microseconds.
    fn from_micros(micros: u64) -> (r: Self)
        ensures r.units() == mul_k(micros as nat, Self::micro_k()),
    ;

    // Returns true if this duration spans no time.
    fn is_zero(&self) -> (r: bool)
        ensures r == (self.units() == 0),
    ;

    // Divide this duration by another Duration and return f64.
    fn div_duration_f64(self, rhs: Self) -> f64;
    // ghost: length in abstract units; micro_k() units per microsecond; max_units() largest value
    spec fn units(&self) -> nat;
    spec fn max_units() -> nat;
    spec fn micro_k() -> nat;
    // assumed axioms every implementor must satisfy (DESIGN 2.3-1)
    proof fn ax_duration(a: Self, b: Self)
        ensures
            Self::micro_k() >= 1,
            a.units() <= Self::max_units(),
            Self::obeys_add_assign_spec(),
            a.add_assign_req(b) == (a.units() + b.units() <= Self::max_units()),
            a.add_assign_req(b) ==> a.add_assign_spec(b).units() == a.units() + b.units(),
            Self::obeys_partial_cmp_spec(),
            (a.partial_cmp_spec(&b) == Some(core::cmp::Ordering::Less)) == (a.units() < b.units()),
    ;
}

    pub broadcast proof fn lemma_dur_add<D: Duration>(a: D, b: D)
        ensures
            D::obeys_add_assign_spec(),
            #[trigger] a.add_assign_req(b) == (a.units() + b.units() <= D::max_units()),
    { D::ax_duration(a, b); }

    pub broadcast proof fn lemma_dur_add_spec<D: Duration>(a: D, b: D)
        ensures
            a.add_assign_req(b) ==> (#[trigger] a.add_assign_spec(b)).units() == a.units() + b.units(),
    { D::ax_duration(a, b); }

    pub broadcast proof fn lemma_dur_lt<D: Duration>(a: D, b: D)
        ensures
            D::obeys_partial_cmp_spec(),
            (#[trigger] a.partial_cmp_spec(&b) == Some(core::cmp::Ordering::Less)) == (a.units() < b.units()),
    { D::ax_duration(a, b); }

    pub broadcast proof fn lemma_dur_bounded<D: Duration>(a: D)
        ensures
            D::micro_k() >= 1,
            #[trigger] a.units() <= D::max_units(),
    { D::ax_duration(a, a); }

    // micros -> units conversion, wrapped so that the one nonlinear fact needed (monotonicity in
    // the first argument) can be given by a triggered lemma
    pub open spec fn mul_k(m: nat, k: nat) -> nat { m * k }

    pub broadcast proof fn lemma_mul_k_day(m: nat, k: nat)
        ensures m <= 86_400_000_000 ==> #[trigger] mul_k(m, k) <= mul_k(86_400_000_000, k),
    {
        assert(m <= 86_400_000_000 ==> m * k <= 86_400_000_000 * k) by(nonlinear_arith);
    }


    pub broadcast group group_duration { lemma_dur_add, lemma_dur_add_spec, lemma_dur_lt, lemma_dur_bounded, lemma_mul_k_day }
}

pub mod error {
    use super::*;
// Specific error types Maybenot.

pub enum Error {
    // Invalid padding limit.
    PaddingLimit,

    // Invalid blocking limit.
    BlockingLimit,

    // Invalid machine. The string describes why in detail.
    Machine(String),
}
}

pub mod event {
    use super::*;
    use crate::{constants::*, MachineId};
// An Event may trigger a [`State`](crate::state) transition.
#[derive(Clone, Copy)]
pub enum Event {
    // NormalRecv is when we received a normal, non-padding packet.
    NormalRecv,
    // PaddingRecv is when we received a padding packet.
    PaddingRecv,
    // TunnelRecv is when we received a packet in the tunnel: because it is
    // encrypted, we do not know if it is a normal or padding packet yet.
    TunnelRecv,
    // NormalSent is when we sent a normal, non-padding packet.
    NormalSent,
    // PaddingSent is when we sent a padding packet.
    PaddingSent,
    // TunnelSent is when we sent a packet in the tunnel: because it is now
    // encrypted, we do not know if it is a normal or padding packet anymore.
    TunnelSent,
    // BlockingBegin is when blocking started.
    BlockingBegin,
    // BlockingEnd is when blocking ended.
    BlockingEnd,
    // LimitReached is when a limit in a state is reached (internal).
    LimitReached,
    // CounterZero is when a machine's counter was decremented to zero.
    CounterZero,
    // TimerBegin is when a machine's timer started.
    TimerBegin,
    // TimerEnd is when a machine's timer expired.
    TimerEnd,
    // Signal is when a machine transitioned to [`STATE_SIGNAL`](crate::constants).
    Signal,
}
// Represents an event to be triggered in the framework.
#[derive(Clone, Copy)]
pub enum TriggerEvent {
    // Received non-padding packet.
    NormalRecv,
    // Received padding packet.
    PaddingRecv,
    // Received packet in the tunnel.
    TunnelRecv,
    // Sent non-padding packet.
    NormalSent,
    // Sent padding packet.
    PaddingSent { machine: MachineId },
    // Sent packet in the tunnel.
    TunnelSent,
    // Blocking of outgoing traffic started by the action from a machine.
    BlockingBegin { machine: MachineId },
    // Blocking of outgoing traffic stopped.
    BlockingEnd,
    // A machine's timer started.
    TimerBegin { machine: MachineId },
    // A machine's timer expired.
    TimerEnd { machine: MachineId },
}
}

pub mod dist {
    use super::*;
// DistType represents the type of a [`Dist`]. Supports a wide range of
// different distributions. Some are probably useless and some are probably
// missing. Uses the [`rand_distr`] crate for sampling.
#[derive(Clone, Copy)]
pub enum DistType {
    // Uniformly random [low, high). If low == high, constant.
    Uniform {
        // The lower bound of the distribution.
        low: f64,
        // The upper bound of the distribution.
        high: f64,
    },
    // Normal distribution with set mean and standard deviation. Useful for
    // real-valued quantities.
    Normal {
        // The mean of the distribution.
        mean: f64,
        // The standard deviation of the distribution.
        stdev: f64,
    },
    // SkewNormal distribution with set location, scale, and shape. Useful for
    // real-valued quantities.
    SkewNormal {
        // The location of the distribution.
        location: f64,
        // The scale of the distribution.
        scale: f64,
        // The shape of the distribution.
        shape: f64,
    },
    // LogNormal distribution with set mu and sigma. Useful for real-valued
    // quantities.
    LogNormal {
        // The mu of the distribution.
        mu: f64,
        // The sigma of the distribution.
        sigma: f64,
    },
    // Binomial distribution with set trials and probability. Useful for yes/no
    // events.
    Binomial {
        // The number of trials.
        trials: u64,
        // The probability of success.
        probability: f64,
    },
    // Geometric distribution with set probability. Useful for yes/no events.
    Geometric {
        // The probability of success.
        probability: f64,
    },
    // Pareto distribution with set scale and shape. Useful for occurrence of
    // independent events at a given rate.
    Pareto {
        // The scale of the distribution.
        scale: f64,
        // The shape of the distribution.
        shape: f64,
    },
    // Poisson distribution with set lambda. Useful for occurrence of
    // independent events at a given rate.
    Poisson {
        // The lambda of the distribution.
        lambda: f64,
    },
    // Weibull distribution with set scale and shape. Useful for occurrence of
    // independent events at a given rate.
    Weibull {
        // The scale of the distribution.
        scale: f64,
        // The shape of the distribution.
        shape: f64,
    },
    // Gamma distribution with set scale and shape.
    Gamma {
        // The scale of the distribution.
        scale: f64,
        // The shape of the distribution.
        shape: f64,
    },
    // Beta distribution with set alpha and beta.
    Beta {
        // The alpha of the distribution.
        alpha: f64,
        // The beta of the distribution.
        beta: f64,
    },
}
// A distribution used in a [`State`](crate::state). Can be sampled to get a
// value. The value is clamped to the range [start, max] if both are set.
#[derive(Clone, Copy)]
pub struct Dist {
    // The type of distribution.
    pub dist: DistType,
    // The starting value that the sampled value is added to.
    pub start: f64,
    // The maximum value that can be sampled (including starting value).
    pub max: f64,
}
}

pub mod counter {
    use super::*;
    use crate::*;
    use self::dist::Dist;
// The operation applied to one of a [`Machine`]'s counters upon transition to
// a [`State`](crate::state::State).
#[derive(Clone, Copy)]
pub enum Operation {
    // Increment the counter.
    Increment,
    // Decrement the counter.
    Decrement,
    // Replace the current value of the counter.
    Set,
}
// A specification of how one of a [`Machine`]'s counters should be updated
// when transitioning to a [`State`](crate::state::State). Consists of an
// [`Operation`] to be applied to the counter with one of three values: by
// default, the value 1, unless a distribution is provided or the copy flag is
// set to true. If the copy flag is set to true, the counter will be updated
// with the value of the other counter *prior to transitioning to the state*.
// If a distribution is provided, the counter will be updated with a value
// sampled from the distribution.
#[derive(Clone, Copy)]
pub struct Counter {
    // The operation to apply to the counter upon a state transition. If the
    // distribution is not set and copy is false, the counter will be updated
    // by 1.
    pub operation: Operation,
    // If set, sample the value to update the counter with from a
    // distribution.
    pub dist: Option<Dist>,
    // If set, the counter will be updated by the other counter's value *prior
    // to transitioning to the state*. Supersedes the `dist` field.
    pub copy: bool,
}
impl Counter {
    #[verifier::external_body]
    // Sample a value to update the counter with.
    pub fn sample_value<R: RngCore>(&self, rng: &mut R) -> (r: u64)
        ensures self.dist is None ==> r == 1,   // [C08.unit] (K-CLAMP)
    { unimplemented!() }
}
}

pub mod action {
    use super::*;
    use crate::constants::*;
    use crate::*;
    use self::dist::Dist;
// The different types of timers used by a [`Machine`].
#[derive(Clone, Copy)]
pub enum Timer {
    // The scheduled timer for actions with a timeout.
    Action,
    // The machine's internal timer, updated by the machine using the
    // UpdateTimer action.
    Internal,
    // Apply to all timers.
    All,
}
// An Action happens upon transition to a [`State`](crate::state). All actions
// (except Cancel) can be limited. The limit is the maximum number of times the
// action can be taken upon repeated transitions to the same state.
#[derive(Clone, Copy)]
pub enum Action {
    // Cancel a timer.
    Cancel { timer: Timer },
    // Schedule padding to be sent after a timeout.
    //
    // The bypass flag determines if the padding packet MUST bypass any
    // existing blocking that was triggered with the bypass flag set.
    //
    // The replace flag determines if the padding packet MAY be replaced by a
    // non-padding packet queued at the time the padding packet would be sent.
    SendPadding {
        bypass: bool,
        replace: bool,
        timeout: Dist,
        limit: Option<Dist>,
    },
    // Schedule blocking of outgoing traffic after a timeout.
    //
    // The bypass flag determines if padding actions are allowed to bypass this
    // blocking action. This allows for machines that can fail closed (never
    // bypass blocking) while simultaneously providing support for
    // constant-rate defenses, when set along with the replace flag.
    //
    // The replace flag determines if the action duration MUST replace any
    // existing blocking. Note that the blocking with the replace flag is
    // always allowed if blocking is currently active, regardless of any limits
    // set. This is to make it possible to create a machine that is guaranteed
    // to prevent indefinite blocking (but comes at the cost of making it
    // possible for a machine that indefinitely refresh blocking by using the
    // replace flag).
    BlockOutgoing {
        bypass: bool,
        replace: bool,
        timeout: Dist,
        duration: Dist,
        limit: Option<Dist>,
    },
    // Update the timer duration for a machine.
    //
    // The replace flag determines if the action duration MUST replace the
    // current timer duration, if the timer has already been set.
    UpdateTimer {
        replace: bool,
        duration: Dist,
        limit: Option<Dist>,
    },
}
impl Action {
    #[verifier::external_body]
    // Sample a timeout for a padding or blocking action.
    pub(crate) fn sample_timeout<R: RngCore>(&self, rng: &mut R) -> (r: u64)
        ensures r <= 86_400_000_000,   // [C04.clamp] (K-CLAMP)
    { unimplemented!() }
    #[verifier::external_body]
    // Sample a duration for a blocking or timer update action.
    pub(crate) fn sample_duration<R: RngCore>(&self, rng: &mut R) -> (r: u64)
        ensures r <= 86_400_000_000,   // [C04.clamp] (K-CLAMP)
    { unimplemented!() }
    #[verifier::external_body]
    // Sample a limit.
    pub(crate) fn sample_limit<R: RngCore>(&self, rng: &mut R) -> (r: u64)
        ensures !crate::spec::action_has_limit(*self) ==> r == u64::MAX,   // (K-CLAMP)
    { unimplemented!() }
    // Check if the action has a limit distribution.
    pub(crate) fn has_limit(&self) -> (r: bool)
        ensures r == crate::spec::action_has_limit(*self),
                                           {
        match self {
            Action::SendPadding { limit, .. }
            | Action::BlockOutgoing { limit, .. }
            | Action::UpdateTimer { limit, .. } => limit.is_some(),
            _ => false,
        }
    }
}
// The action to be taken by the framework user.
#[derive(Clone)]
pub enum TriggerAction<T: crate::time::Instant> {
    // Cancel the timer for a machine.
    Cancel { machine: MachineId, timer: Timer },
    // Schedule padding to be injected after the given timeout for a machine.
    //
    // The bypass flag indicates if the padding packet MUST be sent despite
    // active blocking of outgoing traffic. Note that this is only allowed if
    // the active blocking was set with the bypass flag set to true.
    //
    // The replace flag indicates if the padding packet MAY be replaced by an
    // existing non-padding packet already queued for sending at the time the
    // padding packet would be sent (egress queued) or about to be sent.
    //
    // If the bypass and replace flags are both set to true AND the active
    // blocking may be bypassed, then non-padding packets MAY replace the
    // padding packet AND bypass the active blocking.
    SendPadding {
        timeout: T::Duration,
        bypass: bool,
        replace: bool,
        machine: MachineId,
    },
    // Schedule blocking of outgoing traffic after the given timeout for a
    // machine. The duration of the blocking is specified.
    //
    // The bypass flag indicates if the blocking of outgoing traffic can be
    // bypassed by padding packets with the bypass flag set to true.
    //
    // The replace flag indicates if the duration MUST replace any other
    // currently ongoing blocking of outgoing traffic. If the flag is false,
    // the longest of the two durations MUST be used.
    BlockOutgoing {
        timeout: T::Duration,
        duration: T::Duration,
        bypass: bool,
        replace: bool,
        machine: MachineId,
    },
    // Update the timer duration for a machine.
    //
    // The replace flag specifies if the duration should replace the current
    // timer duration. If the flag is false, the longest of the two durations
    // MUST be used.
    UpdateTimer {
        duration: T::Duration,
        replace: bool,
        machine: MachineId,
    },
}
}

pub mod state {
    use super::*;
    use crate::constants::*;
    use crate::*;
    use self::action::Action;
    use self::counter::Counter;
    use self::event::Event;
// A state index and probability for a transition.
#[derive(Clone, Copy)]
pub struct Trans(pub usize, pub f32);
// A state as part of a [`Machine`].

pub struct State {
    // Take an action upon transitioning to this state.
    pub action: Option<Action>,
    // On transition to this state, update the machine's two counters (A,B).
    pub counter: (Option<Counter>, Option<Counter>),
    // For each possible [`Event`], a vector of state transitions.
    pub transitions: [Option<Vec<Trans>>; EVENT_NUM],
}
impl State {
    #[verifier::external_body]
    // Sample a state to transition to given an [`Event`].
    pub fn sample_state<R: RngCore>(&self, event: Event, rng: &mut R) -> (r: Option<usize>)
        ensures
            // the sampled target is one of the targets declared for this event (K-SAMPLE)
            r matches Some(t) ==> exists|k: int| 0 <= k < crate::spec::trans_list(*self, crate::spec::ev_idx(event)).len()
                && (#[trigger] crate::spec::trans_list(*self, crate::spec::ev_idx(event))[k]).0 == t,
    { unimplemented!() }
}
}

pub mod machine {
    use super::*;
    use crate::constants::*;
    use crate::*;
    use self::state::State;
// A probabilistic state machine (Rabin automaton) consisting of one or more
// [`State`] that determine when to inject and/or block outgoing traffic.

pub struct Machine {
    // The number of padding packets the machine is allowed to generate as
    // actions before other limits apply.
    pub allowed_padding_packets: u64,
    // The maximum fraction of padding packets to allow as actions.
    pub max_padding_frac: f64,
    // The number of microseconds of blocking a machine is allowed to generate
    // as actions before other limits apply.
    pub allowed_blocked_microsec: u64,
    // The maximum fraction of blocking (microseconds) to allow as actions.
    pub max_blocking_frac: f64,
    // The states that make up the machine.
    pub states: Vec<State>,
}
impl Machine {
    #[verifier::external_body]
    // Validates that the machine is in a valid state (machines that are
    // mutated may get into an invalid state).
    pub fn validate(&self) -> (r: Result<(), Error>)
        ensures r is Ok ==> crate::spec::machine_ok(*self),   // [C12.ok] (K-VALID)
    { unimplemented!() }
}
}

pub use crate::action::{Timer, TriggerAction};
pub use crate::error::Error;
pub use crate::event::TriggerEvent;
pub use framework::{Framework, MachineId};
pub use machine::Machine;


// ================================================================= specification vocabulary
pub mod spec {
    use super::*;
    use crate::constants::*;
    use crate::time::{Instant, Duration};
    use crate::state::{State, Trans};
    use crate::action::Action;
    use crate::event::Event;
    use crate::framework::*;

    // discriminant of Event (`*self as usize` in Event::to_usize; the correspondence is checked by
    // the Kani unit K-SAMPLE for all 13 variants)
    pub open spec fn ev_idx(e: Event) -> int {
        match e {
            Event::NormalRecv => 0, Event::PaddingRecv => 1, Event::TunnelRecv => 2,
            Event::NormalSent => 3, Event::PaddingSent => 4, Event::TunnelSent => 5,
            Event::BlockingBegin => 6, Event::BlockingEnd => 7, Event::LimitReached => 8,
            Event::CounterZero => 9, Event::TimerBegin => 10, Event::TimerEnd => 11,
            Event::Signal => 12,
        }
    }

    pub open spec fn trans_list(s: State, e: int) -> Seq<Trans> {
        match s.transitions[e] { Some(v) => v@, None => Seq::empty() }
    }

    pub open spec fn target_ok(t: usize, n: int) -> bool {
        t < n || t == STATE_END || t == STATE_SIGNAL
    }

    pub open spec fn state_ok(s: State, n: int) -> bool {
        forall|e: int, k: int| 0 <= e < 13 && 0 <= k < trans_list(s, e).len()
            ==> target_ok((#[trigger] trans_list(s, e)[k]).0, n)
    }

    // the part of Machine::validate the framework relies on
    pub open spec fn machine_ok(m: Machine) -> bool {
        &&& 1 <= m.states@.len() <= STATE_MAX
        &&& forall|s: int| 0 <= s < m.states@.len() ==> state_ok(#[trigger] m.states@[s], m.states@.len() as int)
    }

    pub open spec fn cs_ok(cs: usize, m: Machine) -> bool {
        cs == STATE_END || cs < m.states@.len()
    }

    pub open spec fn day_units<T: Instant>() -> nat {
        crate::time::mul_k(86_400_000_000, <T::Duration as Duration>::micro_k())
    }

    // [C04.shape]: the action in a slot has kind and flags of the action declared in some state
    pub open spec fn shape_match<T: Instant>(a: TriggerAction<T>, act: Option<Action>, mi: int) -> bool {
        match (a, act) {
            (TriggerAction::Cancel { machine, timer }, Some(Action::Cancel { timer: t2 })) =>
                machine.0 == mi && timer == t2,
            (TriggerAction::SendPadding { timeout, bypass, replace, machine },
             Some(Action::SendPadding { bypass: b2, replace: r2, .. })) =>
                machine.0 == mi && bypass == b2 && replace == r2 && timeout.units() <= day_units::<T>(),
            (TriggerAction::BlockOutgoing { timeout, duration, bypass, replace, machine },
             Some(Action::BlockOutgoing { bypass: b2, replace: r2, .. })) =>
                machine.0 == mi && bypass == b2 && replace == r2
                && timeout.units() <= day_units::<T>() && duration.units() <= day_units::<T>(),
            (TriggerAction::UpdateTimer { duration, replace, machine },
             Some(Action::UpdateTimer { replace: r2, .. })) =>
                machine.0 == mi && replace == r2 && duration.units() <= day_units::<T>(),
            _ => false,
        }
    }

    // [C04.slot]
    pub open spec fn slot_ok<T: Instant>(slot: Option<TriggerAction<T>>, m: Machine, mi: int) -> bool {
        slot is None || exists|s: int| 0 <= s < m.states@.len() && #[trigger] shape_match(slot->0, m.states@[s].action, mi)
    }

    pub open spec fn flag_n(b: bool) -> nat { if b { 0 } else { 1 } }

    pub enum Sig { Zero, One(int), Many }

    // [C09.join], written from the statement: a machine that signals again does not become a
    // second signaller; a different machine does.
    pub open spec fn sig_join(s: Sig, mi: int) -> Sig {
        match s {
            Sig::Zero => Sig::One(mi),
            Sig::One(x) => if x == mi { Sig::One(x) } else { Sig::Many },
            Sig::Many => Sig::Many,
        }
    }

    pub open spec fn action_has_limit(a: Action) -> bool {
        match a {
            Action::SendPadding { limit, .. } => limit is Some,
            Action::BlockOutgoing { limit, .. } => limit is Some,
            Action::UpdateTimer { limit, .. } => limit is Some,
            _ => false,
        }
    }
}

pub mod framework {
    use super::*;
    use crate::spec::*;
    broadcast use crate::time::group_duration;
use crate::*;
use self::action::Action;
use self::constants::{STATE_END, STATE_LIMIT_MAX, STATE_SIGNAL};
use self::counter::Operation;
use self::event::Event;
use crate::time::Duration as _;
// An opaque token representing one machine running inside the framework.
#[derive(Clone, Copy)]
pub struct MachineId(pub usize);
impl MachineId {
    // Create a new machine identifier from a raw integer. Intended for use
    // with the `machine` field of [`TriggerAction`] and [`TriggerEvent`]. For
    // testing and FFI-wrapper purposes only. For regular use, use
    // [`MachineId`] returned by [Framework::trigger_events]. Triggering an
    // event in the framework for a machine that does not exist does not raise
    // a panic or any error.
    pub fn from_raw(raw: usize) -> (r: Self)
        ensures r.0 == raw,
                                        {
        MachineId(raw)
    }
    // Return the raw integer representation of the machine identifier. For
    // testing and FFI-wrapper purposes only. For regular use, use the
    // [`MachineId`] returned by [Framework::trigger_events].
    pub fn into_raw(self) -> (r: usize)
        ensures r == self.0,
                                   {
        self.0
    }
}

pub struct MachineRuntime<T: crate::time::Instant> {
    pub current_state: usize,
    pub state_limit: u64,
    pub padding_sent: u64,
    pub normal_sent: u64,
    pub blocking_duration: T::Duration,
    pub machine_start: T,
    pub allowed_blocked_microsec: T::Duration,
    pub counter_a: u64,
    pub counter_b: u64,
    // only allow each counter to be zeroed once per trigger_events call
    pub counter_zeroed_once: (bool, bool),
}
#[derive(PartialEq)]
pub enum StateChange {
    Changed,
    Unchanged,
}
// An internal signal target for signaling other machines. A machine will not
// signal itself, but, if multiple machines send signals at the same time, then
// a signal will be sent to all machines.

pub enum SignalTarget {
    All,
    AllExcept(usize),
}
// An instance of the Maybenot framework.
//
// An instance of the [`Framework`] repeatedly takes as *input* one or more
// [`TriggerEvent`] describing the encrypted traffic going over an encrypted
// channel, and produces as *output* zero or more [`TriggerAction`], such as to
// *send padding* traffic or *block outgoing* traffic. One or more [`Machine`]
// determine what [`TriggerAction`] to take based on [`TriggerEvent`].

pub struct Framework<M, R, T>
where
    T: crate::time::Instant,
{
    // updated each time the framework is triggered
    pub current_time: T,
    // random number generator, used for sampling distributions and transitions
    pub rng: R,
    // we allocate the actions vector once and reuse it, handing out references
    // as part of the iterator in [`Framework::trigger_events`].
    pub actions: Vec<Option<TriggerAction<T>>>,
    // the machines are immutable, but we need to keep track of their runtime
    // state (size independent of number of states in the machine).
    pub machines: M,
    pub runtime: Vec<MachineRuntime<T>>,
    // padding accounting
    pub max_padding_frac: f64,
    pub normal_sent_packets: u64,
    pub padding_sent_packets: u64,
    // blocking accounting
    pub max_blocking_frac: f64,
    pub blocking_duration: T::Duration,
    pub blocking_started: T,
    pub blocking_active: bool,
    // for internal signaling: if set, specifies the target machines to signal
    pub signal_pending: Option<SignalTarget>,
    pub framework_start: T,
    // I1 (ghost, erased): every delivery of an event to a live machine, in order
    pub ghost_log: Ghost<Seq<(int, Event)>>,
}
impl<M, R, T> Framework<M, R, T>
where
    M: AsRef<[Machine]>,
    R: RngCore,
    T: crate::time::Instant,
{
    // Returns the number of machines in the framework.
    pub fn num_machines(&self) -> (r: usize)
        ensures r == self.ms().len(),
                                        {
        self.machines.as_ref().len()
    }
    // Trigger zero or more [`TriggerEvent`] for all machines running in the
    // framework.
    //
    // The `current_time` SHOULD be the current time at the time of calling the
    // method (e.g., [`Instant::now()`](std::time::Instant::now())).
    //
    // In more detail, the `current_time` SHOULD be a monotonically
    // nondecreasing clock. This means that the time passed SHOULD never be
    // earlier than what was given to [`Framework::new()`] or a previous call
    // to `trigger_events` for the same framework instance. If this requirement
    // is not followed, blocking durations MAY be inaccurately accounted for,
    // leading to less or more [`TriggerAction::BlockOutgoing`] than intended
    // by set framework and machine limits. The consequences of this depend on
    // the running machines (e.g., a machine may also pad as a consequence of
    // blocking) and the use-case for the user of the framework.
    //
    // Returns an iterator of zero or more [`TriggerAction`] that MUST be taken
    // by the caller.
    pub fn trigger_events(
        &mut self,
        events: &[TriggerEvent],
        current_time: T,
    )
        requires
            old(self).wf(),
            old(self).normal_sent_packets + old(self).padding_sent_packets + events@.len() <= u64::MAX,
            old(self).dur_headroom(current_time),
        ensures
            final(self).wf(),
            final(self).machines == old(self).machines,
                                                 {
        // reset all actions
        self.actions.fill(None);

        // reset flags for zeroed counters (each machine is allowed to zero each
        // of its counters once per call)
        for mi in 0..self.runtime.len()
            invariant
                self.wf(),
                self.machines == old(self).machines,
                self.dur_headroom(current_time),
                self.runtime@.len() == old(self).runtime@.len(),
                self.normal_sent_packets + self.padding_sent_packets + events@.len() <= u64::MAX,
                                        {
            self.runtime[mi].counter_zeroed_once = (false, false);
        }

        // Process all events: note that each event may lead to up to one action
        // per machine, but that future events may replace those actions. Under
        // load, this is preferable (because something already happened before
        // we could cause an action, so better to catch up).
        self.current_time = current_time;
        for e in it: events
            invariant
                self.inv(),
                self.machines == old(self).machines,
                self.current_time == current_time,
                self.normal_sent_packets + self.padding_sent_packets + (events@.len() - it.index@) <= u64::MAX,
                        {
            self.process_event(e);
        }

        // handle internal signaling: at most one signal per call to
        // trigger_events for sake of batching remaining a safety mechanism for
        // integrators (NOTE how self.signal_pending is consumed here with
        // take())
        if let Some(signal) = self.signal_pending.take() {
            // keep track of if we should exclude a machine
            let excluded = match signal {
                SignalTarget::All => None,
                SignalTarget::AllExcept(excluded) => Some(excluded),
            };

            // signal all machines, except the excluded one
            let mut r7_i: usize = 0; let r7_n: usize = self.runtime.len();
            while r7_i < r7_n
            invariant
                self.inv(),
                self.machines == old(self).machines,
                r7_n == self.runtime@.len(),
                excluded matches Some(x) ==> x < self.n(),
            decreases r7_n - r7_i
            { let mi = r7_i; r7_i = r7_i + 1;
                if let Some(excluded) = excluded {
                    if excluded == mi {
                        continue;
                    }
                }
                self.transition(mi, Event::Signal);
            }

            // edge case: if the signalling above resulted in another signal AND
            // we excluded a machine, then we need to signal the excluded
            // machine as well (per definition, the signal must have come from
            // another machine)
            if self.signal_pending.take().is_some() {
                if let Some(excluded) = excluded {
                    self.transition(excluded, Event::Signal);
                }
            }
        }

        // only return actions, no None
        // (R3 dropped) self.actions.iter().filter_map(|action| action.as_ref())
    }
    fn process_event(&mut self, e: &TriggerEvent) 
        requires
            old(self).wf(),
            old(self).normal_sent_packets + old(self).padding_sent_packets < u64::MAX,
            old(self).dur_headroom(old(self).current_time),
        ensures
            final(self).wf(),
            final(self).same_config(old(self)),
            final(self).flags_mono(old(self)),
            final(self).dur_headroom(final(self).current_time),
            final(self).normal_sent_packets + final(self).padding_sent_packets
                <= old(self).normal_sent_packets + old(self).padding_sent_packets + 1,
                                                  {
        match e {
            TriggerEvent::NormalRecv => {
                // no special accounting needed
                for mi in 0..self.runtime.len()
                invariant
                    self.inv(),
                    self.same_config(old(self)),
                    self.flags_mono(old(self)),
                    self.same_acct(old(self)),
                                                {
                    self.transition(mi, Event::NormalRecv);
                }
            }
            TriggerEvent::PaddingRecv => {
                // no special accounting needed
                for mi in 0..self.runtime.len()
                invariant
                    self.inv(),
                    self.same_config(old(self)),
                    self.flags_mono(old(self)),
                    self.same_acct(old(self)),
                                                {
                    self.transition(mi, Event::PaddingRecv);
                }
            }
            TriggerEvent::TunnelRecv => {
                // no special accounting needed
                for mi in 0..self.runtime.len()
                invariant
                    self.inv(),
                    self.same_config(old(self)),
                    self.flags_mono(old(self)),
                    self.same_acct(old(self)),
                                                {
                    self.transition(mi, Event::TunnelRecv);
                }
            }
            TriggerEvent::NormalSent => {
                self.normal_sent_packets += 1;

                for mi in 0..self.runtime.len()
                invariant
                    self.inv(),
                    self.same_config(old(self)),
                    self.flags_mono(old(self)),
                    self.normal_sent_packets == old(self).normal_sent_packets + 1,
                    self.padding_sent_packets == old(self).padding_sent_packets,
                    forall|i: int| mi <= i < self.n() ==> (#[trigger] self.runtime@[i]).normal_sent < self.normal_sent_packets,
                                                {
                    self.runtime[mi].normal_sent += 1;

                    self.transition(mi, Event::NormalSent);
                }
            }
            TriggerEvent::PaddingSent { machine } => {
                self.padding_sent_packets += 1;

                let mi = machine.into_raw();
                if mi >= self.runtime.len() {
                    return;
                }
                self.runtime[mi].padding_sent += 1;
                if self.transition(mi, Event::PaddingSent) == StateChange::Unchanged
                    && self.runtime[mi].current_state != STATE_END
                {
                    // decrement only makes sense if we didn't change state
                    self.decrement_limit(mi);
                }
            }
            TriggerEvent::TunnelSent => {
                // accounting is based on normal/padding sent, not tunnel
                for mi in 0..self.runtime.len()
                invariant
                    self.inv(),
                    self.same_config(old(self)),
                    self.flags_mono(old(self)),
                    self.same_acct(old(self)),
                                                {
                    self.transition(mi, Event::TunnelSent);
                }
            }
            TriggerEvent::BlockingBegin { machine } => {
                // keep track of when we start blocking (for accounting in BlockingEnd)
                if !self.blocking_active {
                    self.blocking_active = true;
                    self.blocking_started = self.current_time;
                }

                // blocking is a global event
                for mi in 0..self.runtime.len()
                invariant
                    self.inv(),
                    self.same_config(old(self)),
                    self.flags_mono(old(self)),
                    self.normal_sent_packets == old(self).normal_sent_packets,
                    self.padding_sent_packets == old(self).padding_sent_packets,
                                                {
                    if self.transition(mi, Event::BlockingBegin) == StateChange::Unchanged
                        && self.runtime[mi].current_state != STATE_END
                        && mi == machine.into_raw()
                    {
                        // decrement only makes sense if we didn't
                        // change state and for the machine in question
                        self.decrement_limit(mi);
                    }
                }
            }
            TriggerEvent::BlockingEnd => {
                let mut blocked = T::Duration::zero();
                if self.blocking_active {
                    blocked = self
                        .current_time
                        .saturating_duration_since(self.blocking_started);
                    self.blocking_duration += blocked;
                    self.blocking_active = false;
                }

                for mi in 0..self.runtime.len()
                invariant
                    self.inv(),
                    self.same_config(old(self)),
                    self.flags_mono(old(self)),
                    self.normal_sent_packets == old(self).normal_sent_packets,
                    self.padding_sent_packets == old(self).padding_sent_packets,
                    !self.blocking_active,
                    blocked.units() == old(self).pending_block(self.current_time),
                    forall|i: int| mi <= i < self.n() ==> (#[trigger] self.runtime@[i]).blocking_duration == old(self).runtime@[i].blocking_duration,
                    old(self).dur_headroom(old(self).current_time),
                                                {
                    // since block is global, every machine was blocked the
                    // same duration
                    if !blocked.is_zero() {
                        self.runtime[mi].blocking_duration += blocked;
                    }
                    self.transition(mi, Event::BlockingEnd);
                }
            }
            TriggerEvent::TimerBegin { machine } => {
                let mi = machine.into_raw();
                if mi >= self.runtime.len() {
                    return;
                }
                if self.transition(mi, Event::TimerBegin) == StateChange::Unchanged
                    && self.runtime[mi].current_state != STATE_END
                {
                    // decrement only makes sense if we didn't change state
                    self.decrement_limit(machine.into_raw());
                }
            }
            TriggerEvent::TimerEnd { machine } => {
                let mi = machine.into_raw();
                if mi >= self.runtime.len() {
                    return;
                }
                self.transition(mi, Event::TimerEnd);
            }
        };
    }
    fn transition(&mut self, mi: usize, event: Event) -> (r: StateChange)
        requires
            old(self).inv(),   // [C01.wf][C04.slot]
            mi < old(self).n(),   // [C01.ids]
        ensures
            final(self).wf_core(),   // [C01.wf]
            final(self).slots_ok(),   // [C04.slot]
            final(self).dur_headroom(final(self).current_time),   // [C01.dur]
            final(self).same_config(old(self)),   // [C01.frame][C05.frame]
            final(self).same_acct(old(self)),   // [C02.acct][C03.acct][C10.shared]
            final(self).others_untouched(old(self), mi as int),   // [C10.frame]
            final(self).flags_mono(old(self)),   // [C01.term]
            final(self).sig() == old(self).sig() || final(self).sig() == sig_join(old(self).sig(), mi as int),   // [C09.join]
            final(self).log_step(old(self), mi as int, 1),   // [C10.local][C01.steps]
        decreases old(self).flags_left(mi as int), 2nat
                                                                     {
        // a machine in end state cannot transition
        if self.runtime[mi].current_state == STATE_END {
            return StateChange::Unchanged;
        }

        // sample next state
        // new block for immutable ref, makes things less ugly
        let next_state = {
            proof { self.ghost_log@ = self.ghost_log@.push((mi as int, event)); }   // I3
            let machine = &self.machines.as_ref()[mi];
            let state = &machine.states[self.runtime[mi].current_state];
            state.sample_state(event, &mut self.rng)
        };

        // if no next state on event, done
        let Some(next_state) = next_state else {
            return StateChange::Unchanged;
        };

        // we got a next state, act on it
        match next_state {
            STATE_END => {
                // this is a state change (because we can never reach here if already in
                // STATE_END, see first check above), but we don't cancel any pending
                // action, nor schedule any new action
                self.runtime[mi].current_state = STATE_END;
                StateChange::Changed
            }
            STATE_SIGNAL => {
                // this is not a state change, just signal *other* machines
                self.signal_pending = match self.signal_pending {
                    // no signal pending, so signal all *other* machines
                    None => Some(SignalTarget::AllExcept(mi)),
                    // the same machine signalling again is still the only signaller
                    Some(SignalTarget::AllExcept(excluded)) if excluded == mi => {
                        Some(SignalTarget::AllExcept(mi))
                    }
                    // signal already pending from another machine, so signal
                    // all machines (including this one)
                    _ => Some(SignalTarget::All),
                };
                StateChange::Unchanged
            }
            _ => {
                let curr_state = self.runtime[mi].current_state;

                // transition to same or different state?
                if curr_state != next_state {
                    self.runtime[mi].current_state = next_state;
                    self.runtime[mi].state_limit = if let Some(action) =
                        self.machines.as_ref()[mi].states[next_state].action
                    {
                        action.sample_limit(&mut self.rng)
                    } else {
                        STATE_LIMIT_MAX
                    };
                }

                // update the counter, possible recursion: we need to update the
                // counter before scheduling an action; otherwise, counters will
                // be updated in reverse order. but we also don't want to
                // overwrite actions from later transitions, so check here.
                // finally, two chained transitions in and out of a state should
                // count as a changed state, so we need to keep track of it to
                // not prematurely decrement any limit.
                let below_limits =
                    self.below_action_limits(&self.runtime[mi], &self.machines.as_ref()[mi]);
                let (allow_schedule, state_changed) = self.update_counter(mi);

                // schedule an action if allowed by counter update and below all limits
                if allow_schedule && below_limits {
                    self.schedule_action(mi, next_state);
                }

                if curr_state == self.runtime[mi].current_state && !state_changed {
                    StateChange::Unchanged
                } else {
                    StateChange::Changed
                }
            }
        }
    }
    fn update_counter(&mut self, mi: usize) -> (r: (bool, bool))
        requires
            old(self).inv(),   // [C01.wf][C04.slot]
            mi < old(self).n(),   // [C01.ids]
            old(self).runtime@[mi as int].current_state != STATE_END,
        ensures
            final(self).wf_core(),   // [C01.wf]
            final(self).slots_ok(),   // [C04.slot]
            final(self).dur_headroom(final(self).current_time),   // [C01.dur]
            final(self).same_config(old(self)),   // [C01.frame][C05.frame]
            final(self).same_acct(old(self)),   // [C02.acct][C03.acct][C10.shared]
            final(self).others_untouched(old(self), mi as int),   // [C10.frame]
            final(self).flags_mono(old(self)),   // [C01.term]
            final(self).sig() == old(self).sig() || final(self).sig() == sig_join(old(self).sig(), mi as int),   // [C09.join]
            final(self).log_step(old(self), mi as int, 0),   // [C10.local][C01.steps]
        decreases old(self).flags_left(mi as int), 1nat
                                                            {
        let state = &self.machines.as_ref()[mi].states[self.runtime[mi].current_state];

        let old_value_a = self.runtime[mi].counter_a;
        let old_value_b = self.runtime[mi].counter_b;
        let mut any_counter_zeroed = false;

        // counter A and B are independent, so we update them separately
        if let Some(counter_a) = state.counter.0 {
            let change = if counter_a.copy {
                old_value_b
            } else {
                counter_a.sample_value(&mut self.rng)
            };

            let updated_value_a = &mut self.runtime[mi].counter_a;
            match counter_a.operation {
                Operation::Increment => {
                    *updated_value_a = updated_value_a.saturating_add(change);
                }
                Operation::Decrement => {
                    *updated_value_a = updated_value_a.saturating_sub(change);
                }
                Operation::Set => {
                    *updated_value_a = change;
                }
            }

            if old_value_a != 0
                && *updated_value_a == 0
                && !self.runtime[mi].counter_zeroed_once.0
            {
                any_counter_zeroed = true;
                self.runtime[mi].counter_zeroed_once.0 = true;
            }
        }

        if let Some(counter_b) = state.counter.1 {
            let change = if counter_b.copy {
                old_value_a
            } else {
                counter_b.sample_value(&mut self.rng)
            };

            let updated_value_b = &mut self.runtime[mi].counter_b;
            match counter_b.operation {
                Operation::Increment => {
                    *updated_value_b = updated_value_b.saturating_add(change);
                }
                Operation::Decrement => {
                    *updated_value_b = updated_value_b.saturating_sub(change);
                }
                Operation::Set => {
                    *updated_value_b = change;
                }
            }

            if old_value_b != 0
                && *updated_value_b == 0
                && !self.runtime[mi].counter_zeroed_once.1
            {
                any_counter_zeroed = true;
                self.runtime[mi].counter_zeroed_once.1 = true;
            }
        }

        if any_counter_zeroed {
            let state_changed = self.transition(mi, Event::CounterZero);
            return (
                self.actions[mi].is_none(),
                state_changed == StateChange::Changed,
            );
        }

        // no action scheduled, and state unchanged
        (true, false)
    }
    fn schedule_action(&mut self, mi: usize, state: usize) 
        requires
            old(self).inv(),   // [C01.wf][C04.slot]
            mi < old(self).n(),   // [C01.ids]
            state < old(self).ms()[mi as int].states@.len(),
        ensures
            final(self).wf_core(),   // [C01.wf]
            final(self).slots_ok(),   // [C04.slot]
            final(self).dur_headroom(final(self).current_time),   // [C01.dur]
            final(self).same_config(old(self)),   // [C01.frame][C05.frame]
            final(self).same_acct(old(self)),   // [C02.acct][C03.acct][C10.shared]
            final(self).others_untouched(old(self), mi as int),   // [C10.frame]
            final(self).flags_mono(old(self)),   // [C01.term]
            final(self).runtime == old(self).runtime,
            final(self).signal_pending == old(self).signal_pending,
            final(self).ghost_log == old(self).ghost_log,
                                                           {
        let index = MachineId(mi);
        let action = self.machines.as_ref()[mi].states[state].action;

        self.actions[mi] = match action {
            Some(action) => match action {
                Action::Cancel { timer } => Some(TriggerAction::Cancel {
                    machine: index,
                    timer,
                }),
                Action::SendPadding {
                    bypass, replace, ..
                } => Some(TriggerAction::SendPadding {
                    timeout: T::Duration::from_micros(action.sample_timeout(&mut self.rng)),
                    bypass,
                    replace,
                    machine: index,
                }),
                Action::BlockOutgoing {
                    bypass, replace, ..
                } => Some(TriggerAction::BlockOutgoing {
                    timeout: T::Duration::from_micros(action.sample_timeout(&mut self.rng)),
                    duration: T::Duration::from_micros(action.sample_duration(&mut self.rng)),
                    bypass,
                    replace,
                    machine: index,
                }),
                Action::UpdateTimer { replace, .. } => Some(TriggerAction::UpdateTimer {
                    duration: T::Duration::from_micros(action.sample_duration(&mut self.rng)),
                    replace,
                    machine: index,
                }),
            },
            None => None,
        };
        proof {
            if self.actions@[mi as int] is Some {
                assert(shape_match(self.actions@[mi as int]->0, self.ms()[mi as int].states@[state as int].action, mi as int));
            }
        }
    }
    fn decrement_limit(&mut self, mi: usize) 
        requires
            old(self).inv(),   // [C01.wf][C04.slot]
            mi < old(self).n(),   // [C01.ids]
            old(self).runtime@[mi as int].current_state != STATE_END,
        ensures
            final(self).wf_core(),   // [C01.wf]
            final(self).slots_ok(),   // [C04.slot]
            final(self).dur_headroom(final(self).current_time),   // [C01.dur]
            final(self).same_config(old(self)),   // [C01.frame][C05.frame]
            final(self).same_acct(old(self)),   // [C02.acct][C03.acct][C10.shared]
            final(self).others_untouched(old(self), mi as int),   // [C10.frame]
            final(self).flags_mono(old(self)),   // [C01.term]
            final(self).sig() == old(self).sig() || final(self).sig() == sig_join(old(self).sig(), mi as int),   // [C09.join]
            final(self).log_step(old(self), mi as int, 1),   // [C10.local][C01.steps]
        decreases old(self).flags_left(mi as int), 3nat
                                             {
        if self.runtime[mi].state_limit > 0 {
            self.runtime[mi].state_limit -= 1;
        }
        let cs = self.runtime[mi].current_state;

        if let Some(action) = self.machines.as_ref()[mi].states[cs].action {
            if self.runtime[mi].state_limit == 0 && action.has_limit() {
                // take no action and trigger limit reached
                self.actions[mi] = None;
                // next, we trigger internally event LimitReached
                self.transition(mi, Event::LimitReached);
            }
        }
    }
    fn below_action_limits(&self, runtime: &MachineRuntime<T>, machine: &Machine) -> (r: bool)
        requires
            self.inv(),
            cs_ok(runtime.current_state, *machine), runtime.current_state != STATE_END,
            runtime.normal_sent + runtime.padding_sent <= u64::MAX,
            runtime.blocking_duration.units() + self.pending_block(self.current_time)
                <= <T::Duration as crate::time::Duration>::max_units(),
                                                                                          {
        let current = &machine.states[runtime.current_state];

        let Some(action) = current.action else {
            return false;
        };

        match action {
            Action::BlockOutgoing { .. } => self.below_limit_blocking(runtime, machine),
            Action::SendPadding { .. } => self.below_limit_padding(runtime, machine),
            Action::UpdateTimer { .. } => runtime.state_limit > 0,
            _ => true,
        }
    }
    #[verifier::external_body]
    fn below_limit_blocking(&self, runtime: &MachineRuntime<T>, machine: &Machine) -> (r: bool)
        requires
            cs_ok(runtime.current_state, *machine), runtime.current_state != STATE_END,
            runtime.blocking_duration.units() + self.pending_block(self.current_time)
                <= <T::Duration as crate::time::Duration>::max_units(),
            self.blocking_duration.units() + self.pending_block(self.current_time)
                <= <T::Duration as crate::time::Duration>::max_units(),
        ensures
            r ==> runtime.state_limit > 0,   // [C07.pos] (V-LEAF on the body for every clock type T; K-BLK)
    { unimplemented!() }
    #[verifier::external_body]
    fn below_limit_padding(&self, runtime: &MachineRuntime<T>, machine: &Machine) -> (r: bool)
        requires
            runtime.normal_sent + runtime.padding_sent <= u64::MAX,
            self.normal_sent_packets + self.padding_sent_packets <= u64::MAX,
        ensures
            r ==> runtime.state_limit > 0,   // [C07.pos] (V-LEAF on the body; K-PAD)
    { unimplemented!() }
}

impl<M, R, T> Framework<M, R, T>
where
    M: AsRef<[Machine]>,
    R: RngCore,
    T: crate::time::Instant,
{
    pub open spec fn ms(&self) -> Seq<Machine> { self.machines.as_ref_spec()@ }

    pub open spec fn n(&self) -> int { self.runtime@.len() as int }

    // number of CounterZero guards still unset: bounds the transition recursion
    pub open spec fn flags_left(&self, mi: int) -> nat {
        flag_n(self.runtime@[mi].counter_zeroed_once.0) + flag_n(self.runtime@[mi].counter_zeroed_once.1)
    }

    pub open spec fn wf(&self) -> bool { self.wf_core() && self.slots_ok() }

    // [C04.slot]
    pub open spec fn slots_ok(&self) -> bool {
        forall|i: int| 0 <= i < self.n() ==> slot_ok(#[trigger] self.actions@[i], self.ms()[i], i)
    }

    pub open spec fn wf_core(&self) -> bool {
        &&& self.runtime@.len() == self.ms().len()
        &&& self.actions@.len() == self.ms().len()
        &&& forall|i: int| 0 <= i < self.ms().len() ==> machine_ok(#[trigger] self.ms()[i])
        &&& forall|i: int| 0 <= i < self.n() ==> cs_ok((#[trigger] self.runtime@[i]).current_state, self.ms()[i])
        &&& (self.signal_pending matches Some(SignalTarget::AllExcept(x)) ==> x < self.n())
        // packet accounting (trusted bound: fewer than 2^64 reported packets, DESIGN 2.3-5)
        &&& self.normal_sent_packets + self.padding_sent_packets <= u64::MAX
        &&& forall|i: int| 0 <= i < self.n() ==>
                (#[trigger] self.runtime@[i]).normal_sent <= self.normal_sent_packets
                && self.runtime@[i].padding_sent <= self.padding_sent_packets
    }

    // elapsed blocked time still to be booked at time `now`
    pub open spec fn pending_block(&self, now: T) -> nat {
        if self.blocking_active && now.t() >= self.blocking_started.t() {
            (now.t() - self.blocking_started.t()) as nat
        } else { 0 }
    }

    // hypothesis H of DESIGN 4/C01 (F5): accumulated blocked time is representable in T::Duration
    pub open spec fn dur_headroom(&self, now: T) -> bool {
        &&& self.blocking_duration.units() + self.pending_block(now) <= <T::Duration as crate::time::Duration>::max_units()
        &&& forall|i: int| 0 <= i < self.n() ==>
                (#[trigger] self.runtime@[i]).blocking_duration.units() + self.pending_block(now)
                    <= <T::Duration as crate::time::Duration>::max_units()
    }

    // abstract signaller set of C09: nobody, exactly machine x, two or more distinct machines
    pub open spec fn sig(&self) -> Sig {
        match self.signal_pending {
            None => Sig::Zero,
            Some(SignalTarget::AllExcept(x)) => Sig::One(x as int),
            Some(SignalTarget::All) => Sig::Many,
        }
    }

    pub open spec fn log(&self) -> Seq<(int, Event)> { self.ghost_log@ }

    // deliveries made by one step of machine mi: only to mi, and at most one per guard it consumes
    // plus the triggering one  [C10.local][C01.steps]
    pub open spec fn log_step(&self, o: &Self, mi: int, own: int) -> bool {
        &&& o.log().is_prefix_of(self.log())
        &&& forall|k: int| o.log().len() <= k < self.log().len() ==> (#[trigger] self.log()[k]).0 == mi
        &&& self.log().len() - o.log().len() <= own + (o.flags_left(mi) - self.flags_left(mi))
    }

    pub open spec fn inv(&self) -> bool { self.wf() && self.dur_headroom(self.current_time) }

    // fields no internal step ever writes
    pub open spec fn same_config(&self, o: &Self) -> bool {
        &&& self.machines == o.machines
        &&& self.runtime@.len() == o.runtime@.len()
        &&& self.actions@.len() == o.actions@.len()
        &&& self.max_padding_frac == o.max_padding_frac
        &&& self.max_blocking_frac == o.max_blocking_frac
        &&& self.framework_start == o.framework_start
        &&& self.current_time == o.current_time
        &&& forall|i: int| 0 <= i < self.n() ==>
                (#[trigger] self.runtime@[i]).machine_start == o.runtime@[i].machine_start
                && self.runtime@[i].allowed_blocked_microsec == o.runtime@[i].allowed_blocked_microsec
    }

    // shared accounting state (written only by process_event itself)
    pub open spec fn same_acct(&self, o: &Self) -> bool {
        &&& self.normal_sent_packets == o.normal_sent_packets
        &&& self.padding_sent_packets == o.padding_sent_packets
        &&& self.blocking_duration == o.blocking_duration
        &&& self.blocking_started == o.blocking_started
        &&& self.blocking_active == o.blocking_active
        &&& forall|i: int| 0 <= i < self.n() ==>
                (#[trigger] self.runtime@[i]).padding_sent == o.runtime@[i].padding_sent
                && self.runtime@[i].normal_sent == o.runtime@[i].normal_sent
                && self.runtime@[i].blocking_duration == o.runtime@[i].blocking_duration
    }

    // [C10.frame] a step of machine mi leaves every other machine's runtime and slot untouched
    pub open spec fn others_untouched(&self, o: &Self, mi: int) -> bool {
        &&& forall|j: int| 0 <= j < self.n() && j != mi ==> (#[trigger] self.runtime@[j]) == o.runtime@[j]
        &&& forall|j: int| 0 <= j < self.n() && j != mi ==> (#[trigger] self.actions@[j]) == o.actions@[j]
    }

    // guards only ever get set within a call
    pub open spec fn flags_mono(&self, o: &Self) -> bool {
        forall|i: int| 0 <= i < self.n() ==>
            (o.runtime@[i].counter_zeroed_once.0 ==> (#[trigger] self.runtime@[i]).counter_zeroed_once.0)
            && (o.runtime@[i].counter_zeroed_once.1 ==> self.runtime@[i].counter_zeroed_once.1)
    }

    pub open spec fn step_frame(&self, o: &Self, mi: int) -> bool {
        &&& self.same_config(o)
        &&& self.same_acct(o)
        &&& self.others_untouched(o, mi)
        &&& self.flags_mono(o)
    }
}
}

} // verus!

fn main() {}

