#!/usr/bin/env python3
"""setup self-test: the extractor's scanner on tricky lexical input, and a dry extraction."""
import os, sys
sys.path.insert(0, os.path.dirname(os.path.abspath(__file__)))
from rustscan import code_only, match_close, body_open
src = 'fn f<\'a>(x: &\'a str) -> char { let s = "}{ // \\" "; /* { */ let c = \'}\'; // }\n \'{\' }\nfn g() {}'
code = code_only(src)
o = body_open(code, 0)
assert src[match_close(code, o)] == "}" and src[match_close(code, o) + 1:].strip().startswith("fn g"), "brace matching"
print("extractor self-test ok")
