#!/usr/bin/env python3
"""Mechanical extraction of real maybenot functions into one Verus file.

A template (contracts/verus/*.tmpl) is literal Verus text (specs, lemmas, module skeleton) plus
directives that pull *verbatim* item text out of /repo and splice contracts into it:

  //@item <file> "<regex>" [derive="A, B"] [pubfields] [drop_default_ty]
        one item (struct / enum / const / type) found by regex on code-only text.
  //@container <file> "<regex of impl/trait header>" [all]
        an `impl`/`trait` block; only the fns named by following //@fn directives are emitted,
        unless `all` is given (then every line of the block is emitted and //@fn only decorates).
      //@fn <name> [ret=<ident>] [external_body] [drop_ret] [drop_tail="<regex>"]
      <contract text: requires / ensures / decreases ...>       (until next //@ directive)
        //@loop <ordinal>
        <invariant / decreases text>
        //@proof_after "<regex on one code line of the body>"
        <proof { .. } text inserted after that line>
      //@add
      <ghost-only text inserted before the closing brace of the container>
  //@endcontainer

Rules applied to copied text (all line preserving, all counted in the report):
  R1  doc comments `///`,`//!` -> `//`; `#[derive(..)]` replaced by the directive's derive list
      (or removed); `#[inline..]`, `#[serde..]` removed.
  R2  with `pubfields`: private named fields and tuple fields become `pub`.
  R3  `drop_ret` + `drop_tail`: the return type and the matching final expression are dropped.
  R4  `use` lines naming external crates are dropped (rand_core::RngCore is a local trait).
  R5  `external_body`: body replaced by `{ unimplemented!() }` and `#[verifier::external_body]` added.
  R7  `for x in a..b {` whose body contains `continue` is desugared into a while loop.
  With `shims` on a //@fn (Verus has no semantics for floats and no spec for formatting):
  R10 `format!(..)`, `"lit".to_string()`, `ident.to_string()` -> `crate::shim::fmt_msg()` (an opaque String;
      message texts are not part of any contract).
  R11 `x += e;` for a local declared `let mut x: f32|f64` -> `x = crate::shim::f_add(x, e);`
  R12 `path <op> <float literal or float local>` (op in <=,<,>=,>) -> `crate::shim::f_le|f_lt|f_ge|f_gt(path, literal)`
  R14 `(<lit>..=<lit>).contains(&e)` -> `crate::shim::f_in_incl(<lit>, <lit>, e)`
  R18 `&s[<int>..<int>]` / `&s[<int>..]` for a parameter `s: &str` -> `crate::shim::str_sub(s, lo, Some(hi)|None)`
      (opaque; whether the slice panics is not claimed)
  R15 `rng.gen_range(<lit>..<lit>)` -> `crate::shim::gen_range_f(rng, <lit>, <lit>)`; with variable bounds ->
      `gen_range_chk_f`, whose precondition is rand's (lo < hi, hi - lo finite)
      (R12 also applies when one side is a float local: a local declared f32/f64 or initialised with a
      float literal or with such a gen_range call)
      the shims are external_body functions whose bodies are the replaced expression and whose contracts
      say "the result is a function of the operands" (uninterpreted fle/flt/fge/fgt/fadd/fin).
  R13 `for (i, x) in E.iter().enumerate() {` -> `let mut r13_i = 0; let r13_n = E.len(); while r13_i < r13_n
      { let i = r13_i; let x = &E[r13_i]; r13_i = r13_i + 1;` (definition of slice::Iter + Enumerate).
  R21 `for x in E.trigger_events(ARGS) {` -> `let r21_v = E.trigger_events_vec(ARGS); for x in r21_it: r21_v.iter() {`
      (iterating over the collected results; the stand-in `trigger_events_vec` returns the actions as a Vec).
  R24 `for x in E.iter_mut() {` / `for (i, x) in E.iter_mut().enumerate() {` -> index loop with `let x = &mut E[i]`.
  R29 `for x in E.iter().flatten() {` -> index loop whose body runs under `if let Some(x) = &E[i]`.
  R26 `assert!(c, "msg")` -> `crate::shim::rt_assert(c)` (requires c).  R27 `panic!("msg")` -> `return
      crate::shim::rt_unreachable()` (requires false).  Both turn "this never fires" into a proof obligation.
  R22 `debug!(..);` statements are removed.   R23 `x.clone()` -> `x.clone_of()` (result equals the receiver).
  R19 a file-level `const` of the same file that a verified body names, and that the template does not
      bring in itself, is copied in front of the container.
  R16 `for (a, b) in X.iter_mut().zip(Y.iter()) {` -> `let mut r16_i = 0; let r16_n = min(X.len(), Y.len());
      while r16_i < r16_n { let a = &mut X[r16_i]; let b = &Y[r16_i]; r16_i = r16_i + 1;` (definition of Zip
      over two slice iterators: stops at the shorter one).
  I4  contract text is inserted between signature and body / after loop headers; `ret=` names
      the return value `-> (r: T)`.
Everything else is byte-identical to /repo.  The report lists, per function, source file:line
range, sha256 of the source text and the number of lines changed by each rule.
"""
import hashlib
import json
import os
import re
import shlex
import sys

sys.path.insert(0, os.path.dirname(os.path.abspath(__file__)))
from rustscan import (LostAnchor, body_open, code_mask, code_only, find_one, item_start_line,
                      line_of, loops_in, match_close)

EXTERNAL_USE = re.compile(
    r"^\s*use\s+(rand_core|rand_distr|rand|serde|enum_map|base64|bincode|flate2|sha256|std::fmt|"
    r"std::hash|std::collections|std::io|std::str|std::slice|byteorder|hex)\b")


class Source:
    cache = {}

    def __init__(self, repo, rel):
        self.rel = rel
        self.path = os.path.join(repo, rel)
        try:
            self.src = open(self.path).read()
        except OSError as e:
            raise LostAnchor("cannot read %s: %s" % (rel, e))
        self.code = code_only(self.src)
        self.lines = self.src.split("\n")
        self.starts = [0]
        for l in self.lines:
            self.starts.append(self.starts[-1] + len(l) + 1)

    @classmethod
    def get(cls, repo, rel):
        k = (repo, rel)
        if k not in cls.cache:
            cls.cache[k] = Source(repo, rel)
        return cls.cache[k]

    def line_of(self, pos):
        return line_of(self.src, pos)


class Out:
    def __init__(self):
        self.lines = []      # text
        self.origin = []     # (rel, 1-based line) or None
        self.tags = []       # obligation tag active on this line (from `// [Cxx.name]` comments)

    def emit(self, text, origin=None):
        for l in text.split("\n"):
            self.lines.append(l)
            self.origin.append(origin)

    def emit_src(self, src, ln, text):
        self.lines.append(text)
        self.origin.append((src.rel, ln + 1))


class Extractor:
    def __init__(self, repo, template, defines=()):
        self.repo = repo
        self.tmpl = self.expand_defs(self.select(self.include(template), set(defines)))
        self.out = Out()
        self.report = {"functions": [], "items": [], "rules": {}, "template": template}

    @staticmethod
    def include(template):
        """//@include <file> (relative to the template's directory) splices another template fragment"""
        out = []
        base = os.path.dirname(os.path.abspath(template))
        for l in open(template).read().split("\n"):
            if l.strip().startswith("//@include "):
                out.extend(Extractor.include(os.path.join(base, l.strip().split()[1])))
            else:
                out.append(l)
        return out

    @staticmethod
    def select(lines, defines):
        """//@if NAME .. [//@else ..] //@endif : keep a template section only for units that define NAME
        (one template serves the main unit and the leaf unit)."""
        out, stack = [], []
        for l in lines:
            s = l.strip()
            if s.startswith("//@if "):
                stack.append(s.split()[1] in defines)
            elif s.startswith("//@else"):
                stack[-1] = not stack[-1]
            elif s.startswith("//@endif"):
                stack.pop()
            elif all(stack):
                out.append(l)
        return out

    @staticmethod
    def expand_defs(lines):
        """//@def NAME .. //@enddef  defines a text macro; //@use NAME splices it (contracts shared by
        several loops).  Pure template text, nothing from /repo."""
        defs, out, cur = {}, [], None
        for l in lines:
            s = l.strip()
            if s.startswith("//@def "):
                cur = s.split()[1]
                defs[cur] = []
            elif s.startswith("//@enddef"):
                cur = None
            elif cur is not None:
                defs[cur].append(l)
            elif s.startswith("//@use "):
                parts = s.split()
                name = parts[1]
                if name not in defs:
                    raise LostAnchor("template: //@use of undefined %s" % name)
                subs = [p.split("=>", 1) for p in parts[2:] if "=>" in p]
                for dl in defs[name]:
                    for a, b in subs:
                        dl = dl.replace(a, b)
                    out.append(dl)
            else:
                out.append(l)
        return out

    def hit(self, rule, n=1):
        self.report["rules"][rule] = self.report["rules"].get(rule, 0) + n

    # ---- line-level rewriting of copied text ------------------------------------------
    def rewrite_line(self, l, opts):
        s = l.strip()
        if s.startswith("///") or s.startswith("//!"):
            self.hit("R1.doc")
            return l.replace("///", "//", 1).replace("//!", "//", 1)
        if s.startswith("#[derive("):
            self.hit("R1.derive")
            ind = l[:len(l) - len(l.lstrip())]
            d = opts.get("derive")
            return ind + ("#[derive(%s)]" % d if d else "")
        if s.startswith("#[inline") or s.startswith("#[serde"):
            self.hit("R1.attr")
            return ""
        if EXTERNAL_USE.match(l):
            self.hit("R4.use")
            return "// (R4 dropped) " + s
        if opts.get("pubfields"):
            m = re.match(r"^(\s+)([a-z_][a-z0-9_]*)\s*:\s", l)
            if m and not s.startswith("pub") and not s.startswith("//"):
                self.hit("R2.pub")
                return m.group(1) + "pub " + l[len(m.group(1)):]
            m = re.match(r"^(\s*)(pub\s+)?struct\s+(\w+)\((\w+)\);", l)
            if m:
                self.hit("R2.pub")
                return "%spub struct %s(pub %s);" % (m.group(1), m.group(3), m.group(4))
        if opts.get("pubtype"):
            m = re.match(r"^(struct|enum)\s", l)
            if m:
                self.hit("R2.pub")
                return "pub " + l
        if opts.get("default_ty"):
            l2 = re.sub(r"=\s*std::time::Instant", "= " + opts["default_ty"], l)
            if l2 != l:
                self.hit("R6.default_ty")
                return l2
        if opts.get("drop_default_ty"):
            l2 = re.sub(r"\s*=\s*std::time::Instant", "", l)
            if l2 != l:
                self.hit("R6.default_ty")
                return l2
        return l

    # ---- directives ---------------------------------------------------------------------
    def run(self):
        i = 0
        T = self.tmpl
        while i < len(T):
            l = T[i]
            s = l.strip()
            if s.startswith("//@item "):
                self.do_item(shlex.split(s[len("//@item "):]))
                i += 1
            elif s.startswith("//@container "):
                j = i + 1
                while not T[j].strip().startswith("//@endcontainer"):
                    j += 1
                    if j >= len(T):
                        raise LostAnchor("template: //@container without //@endcontainer at %d" % i)
                self.do_container(shlex.split(s[len("//@container "):]), T[i + 1:j])
                i = j + 1
            else:
                self.out.emit(l)
                i += 1
        return self

    @staticmethod
    def parse_opts(args):
        opts = {}
        for a in args:
            if "=" in a:
                k, v = a.split("=", 1)
                opts[k] = v
            else:
                opts[a] = True
        return opts

    def do_item(self, args):
        rel, regex = args[0], args[1]
        opts = self.parse_opts(args[2:])
        src = Source.get(self.repo, rel)
        m = find_one(src.code, regex, what=rel)
        ln = src.line_of(m.start())
        first = item_start_line(src.lines, ln)
        # end: `;` or matching brace, whichever starts first at depth 0
        p = m.start()
        semi = src.code.find(";", p)
        try:
            bo = body_open(src.code, p)
        except LostAnchor:
            bo = -1
        if bo >= 0 and (semi < 0 or bo < semi):
            end = match_close(src.code, bo)
        else:
            end = semi
        last = src.line_of(end)
        text = "\n".join(src.lines[first:last + 1])
        for k in range(first, last + 1):
            self.out.emit_src(src, k, self.rewrite_line(src.lines[k], opts))
        self.report["items"].append({"item": regex, "file": rel, "lines": [first + 1, last + 1],
                                     "sha256": hashlib.sha256(text.encode()).hexdigest()})

    def do_container(self, args, body):
        rel, regex = args[0], args[1]
        opts = self.parse_opts(args[2:])
        src = Source.get(self.repo, rel)
        whole_file = (regex == "FILE")   # free functions: the file itself plays the container, nothing of it is emitted
        if whole_file:
            first, bo, bc = 0, -1, len(src.code)
            bo_ln, bc_ln = -1, len(src.lines)
        else:
            m = find_one(src.code, regex, what=rel)
            hdr_ln = src.line_of(m.start())
            first = item_start_line(src.lines, hdr_ln)
            bo = body_open(src.code, m.start())
            bc = match_close(src.code, bo)
            bo_ln, bc_ln = src.line_of(bo), src.line_of(bc)
        # parse sub-directives
        fns, add, cur, sub = [], [], None, None
        for l in body:
            s = l.strip()
            if s.startswith("//@fn "):
                a = shlex.split(s[len("//@fn "):])
                cur = {"name": a[0], "opts": self.parse_opts(a[1:]), "contract": [], "loops": {},
                       "proof_after": []}
                fns.append(cur)
                sub = cur["contract"]
            elif s.startswith("//@loop_pre ") or s.startswith("//@loop_post ") or s.startswith("//@loop_end ") \
                    or s.startswith("//@loop_begin "):
                # ghost lines placed immediately before / after loop N, or at the end of its body
                key = s.split()[0][3:]
                sub = cur.setdefault(key, {}).setdefault(int(s.split()[1]), [])
            elif s.startswith("//@loop_r7 "):
                # extra invariant lines used only if rule R7 has to desugar this loop (a `continue`
                # appeared in its body): the while form needs its bound and a decreases clause
                a = shlex.split(s[len("//@loop_r7 "):])
                sub = cur.setdefault("loops_r7", {}).setdefault(int(a[0]), [])
            elif s.startswith("//@loop "):
                a = shlex.split(s[len("//@loop "):])
                sub = cur["loops"].setdefault(int(a[0]), [])
                lo = self.parse_opts(a[1:])
                if lo.get("iter"):
                    cur.setdefault("loop_iter", {})[int(a[0])] = lo["iter"]
            elif s.startswith("//@proof_after ") or s.startswith("//@proof_before "):
                before = s.startswith("//@proof_before ")
                a = shlex.split(s.split(" ", 1)[1])
                pa = {"regex": a[0], "text": [], "before": before,
                      "nth": int(self.parse_opts(a[1:]).get("nth", 0)),
                      "exact": bool(self.parse_opts(a[1:]).get("exact"))}   # exact: no statement-boundary adjustment
                cur["proof_after"].append(pa)
                sub = pa["text"]
            elif s.startswith("//@proof_end"):
                cur["proof_end"] = []
                sub = cur["proof_end"]
            elif s.startswith("//@add"):
                sub = add
            elif s.startswith("//@"):
                raise LostAnchor("template: unknown directive %r" % s)
            elif sub is not None:
                sub.append(l)
        # R19: file-level `const` items of the same source file that a verified body names and that the
        # template has not already brought in are copied in front of the container
        emitted = "\n".join(self.out.lines)
        for f in fns:
            if f["opts"].get("external_body"):
                continue
            sp = self.fn_span(src, f["name"], max(bo, 0), bc)
            if sp[4] is None:
                continue
            for ident in sorted(set(re.findall(r"\b[A-Z][A-Z0-9_]{2,}\b", src.code[sp[3]:sp[4]]))):
                m = re.search(r"(?m)^(?:pub(?:\([a-z]+\))?\s+)?const\s+%s\s*:[^;]*;" % re.escape(ident), src.code)
                if not m or re.search(r"\bconst\s+%s\b" % re.escape(ident), emitted):
                    continue
                k0, k1 = src.line_of(m.start()), src.line_of(m.end() - 1)
                for k in range(k0, k1 + 1):
                    self.out.emit_src(src, k, self.rewrite_line(src.lines[k], opts))
                emitted += "\nconst %s " % ident
                self.hit("R19.const")
                self.report["items"].append({"item": "const " + ident + " (R19)", "file": rel, "lines": [k0 + 1, k1 + 1],
                                             "sha256": hashlib.sha256(src.src[m.start():m.end()].encode()).hexdigest()})
        # header
        if not whole_file:
            for k in range(first, bo_ln + 1):
                self.out.emit_src(src, k, self.rewrite_line(src.lines[k], opts))
        if opts.get("all"):
            # locate each decorated fn first
            spans = {}
            for f in fns:
                spans[f["name"]] = self.fn_span(src, f["name"], bo, bc)
            k = bo_ln + 1
            while k < bc_ln:
                hit = None
                for f in fns:
                    if spans[f["name"]][0] == k:
                        hit = f
                if hit:
                    self.emit_fn(src, hit, spans[hit["name"]], opts)
                    k = spans[hit["name"]][1] + 1
                else:
                    self.out.emit_src(src, k, self.rewrite_line(src.lines[k], opts))
                    k += 1
        else:
            for f in fns:
                self.emit_fn(src, f, self.fn_span(src, f["name"], max(bo, 0), bc), opts)
        for l in add:
            self.out.emit(l)
        if not whole_file:
            self.out.emit_src(src, bc_ln, src.lines[bc_ln])

    def fn_span(self, src, name, lo, hi):
        m = find_one(src.code, r"\bfn\s+%s\b" % re.escape(name), lo, hi, what="fn " + name)
        p = lo + m.start()
        ln = src.line_of(p)
        first = item_start_line(src.lines, ln)
        # signature end: `{` or `;` at depth 0
        depth, j = 0, lo + m.end()
        while True:
            ch = src.code[j]
            if ch in "([":
                depth += 1
            elif ch in ")]":
                depth -= 1
            elif ch in "{;" and depth == 0:
                break
            j += 1
        if src.code[j] == ";":
            return (first, src.line_of(j), p, j, None)
        bc = match_close(src.code, j)
        return (first, src.line_of(bc), p, j, bc)

    def emit_fn(self, src, f, span, copts):
        g0 = len(self.out.lines) + 1
        nrec = len(self.report["functions"])
        self._emit_fn(src, f, span, copts)
        self.report["functions"][nrec]["gen_lines"] = [g0, len(self.out.lines)]

    def _emit_fn(self, src, f, span, copts):
        first, last, p_fn, p_open, p_close = span
        fo = f["opts"]
        name = f["name"]
        text = "\n".join(src.lines[first:last + 1])
        rec = {"fn": name, "file": src.rel, "lines": [first + 1, last + 1],
               "sha256": hashlib.sha256(text.encode()).hexdigest(),
               "mode": "external_body" if fo.get("external_body") else
                       ("declaration" if p_close is None else "body verified"), "edits": []}
        if fo.get("tag"):
            rec["default_tag"] = fo["tag"]   # property tag of the function's untagged obligations (callee preconditions)
        self.report["functions"].append(rec)
        open_ln = src.line_of(p_open)
        # --- signature lines first..open_ln (text before the `{`/`;`)
        sig_lines = []
        for k in range(first, open_ln + 1):
            l = src.lines[k]
            if k == open_ln:
                l = l[:p_open - src.starts[k]]
            sig_lines.append((k, l))
        sig_txt = "\n".join(l for _, l in sig_lines)
        if fo.get("drop_ret"):
            new = re.sub(r"\)\s*->\s*[^{;]*$", ")", sig_txt, flags=re.S)
            if new == sig_txt:
                raise LostAnchor("drop_ret: no return type on fn %s" % name)
            sig_txt = new
            rec["edits"].append("R3: return type dropped")
            self.hit("R3.ret")
        elif fo.get("ret"):
            new = re.sub(r"->\s*([^{;]*?)\s*$", lambda mm: "-> (%s: %s)" % (fo["ret"], mm.group(1).strip()),
                         sig_txt, flags=re.S)
            if new == sig_txt:
                raise LostAnchor("ret=: no return type on fn %s" % name)
            sig_txt = new
            rec["edits"].append("I4: return value named %s" % fo["ret"])
            self.hit("I4.ret")
        if fo.get("external_body"):
            self.out.emit("    #[verifier::external_body]")
            self.hit("R5.external_body")
        if fo.get("attr"):
            # I4: verifier-only attribute (e.g. a larger resource limit for one function)
            for at in fo["attr"].split(";"):
                self.out.emit("    #[%s]" % at.strip())
                self.hit("I4.attr")
        new_sig = sig_txt.split("\n")
        # keep the line map: if the number of lines changed, map all to the first sig line
        if len(new_sig) == len(sig_lines):
            for (k, _), l in zip(sig_lines, new_sig):
                if l.strip() or k != open_ln:
                    self.out.emit_src(src, k, self.rewrite_line(l, copts))
        else:
            for l in new_sig:
                self.out.emit_src(src, first, l)
        for l in f["contract"]:
            if l.strip():
                self.out.emit(l)
                self.hit("I4.contract_lines")
        if p_close is None:
            self.out.emit_src(src, open_ln, "    ;")
            return
        if fo.get("external_body"):
            self.out.emit_src(src, open_ln, "    { unimplemented!() }")
            rec["edits"].append("R5: body replaced")
            return
        # --- body
        body_first = open_ln
        loops = loops_in(src.code, p_open + 1, p_close)
        loop_open_ln, loop_close_ln = {}, {}
        for n, (ks, bo) in enumerate(loops):
            loop_open_ln[src.line_of(bo)] = (n, ks, bo)
            loop_close_ln[src.line_of(match_close(src.code, bo))] = n
        for n in f["loops"]:
            if n >= len(loops):
                raise LostAnchor("fn %s has %d loops, contract names loop %d" % (name, len(loops), n))
        pa_lines, pb_lines = {}, {}
        for pa in f["proof_after"]:
            hits = [k for k in range(open_ln, last + 1)
                    if re.search(pa["regex"], self.code_line(src, k))]
            if pa.get("nth"):
                # the anchor text occurs several times: `nth=` picks one, `of=` pins the expected count
                if len(hits) < abs(pa["nth"]):
                    raise LostAnchor("proof anchor %r in fn %s: match %d of %d" % (pa["regex"], name, pa["nth"], len(hits)))
                hit = hits[pa["nth"] - 1] if pa["nth"] > 0 else hits[pa["nth"]]   # nth=-1: the last match
            else:
                if len(hits) != 1:
                    raise LostAnchor("proof_after %r in fn %s matched %d lines" % (pa["regex"], name, len(hits)))
                hit = hits[0]
            # the anchor may sit in the middle of a multi-line statement (e.g. a condition spread over several
            # lines): ghost lines go before the first / after the last line of that statement
            ends = lambda kk: self.code_line(src, kk).rstrip()[-1:] in (";", "{", "}") or not self.code_line(src, kk).strip()
            if pa.get("exact"):
                pass
            elif pa.get("before"):
                while hit - 1 > open_ln and not ends(hit - 1):
                    hit -= 1
                while hit - 1 > open_ln and not self.code_line(src, hit - 1).strip() and not ends(hit - 2):
                    hit -= 1   # comment lines inside the statement
            else:
                while hit < last and not (self.code_line(src, hit).rstrip()[-1:] in (";", "{", "}")):
                    hit += 1
            tgt = pb_lines if pa.get("before") else pa_lines
            tgt[hit] = tgt.get(hit, []) + pa["text"]
        # R21: `for x in E.trigger_events(ARGS) {` (the header may span lines): the iterator is collected first
        r21_start = {}
        for n, (ks, bo_) in enumerate(loops):
            mte = re.match(r"for\s+(\w+)\s+in\s+(.+?)\.trigger_events\((.*)\)\s*$", src.src[ks:bo_], re.S)
            if mte:
                r21_start[src.line_of(ks)] = (n, ks, bo_, mte)
                loop_open_ln.pop(src.line_of(bo_), None)
        r29_close = set()
        drop_tail = fo.get("drop_tail")
        tail_dropped = False
        ovr = self.shim_overrides(src, p_open, p_close, rec, name, fo.get("floats")) if fo.get("shims") else {}
        for k in ovr:
            if k in loop_open_ln or k == open_ln:
                raise LostAnchor("shim rule would rewrite a loop header / signature line in fn %s" % name)
        k = open_ln
        while k <= last:
            l = ovr.get(k, src.lines[k])
            if k == open_ln:
                l = " " * (p_open - src.starts[k]) + l[p_open - src.starts[k]:]
            if k in pb_lines:
                for pl in pb_lines[k]:
                    if pl.strip():
                        self.out.emit(pl)
                        self.hit("I4.proof_lines")
            if drop_tail and re.search(drop_tail, self.code_line(src, k)):
                if tail_dropped:
                    raise LostAnchor("drop_tail matched twice in fn %s" % name)
                tail_dropped = True
                self.hit("R3.tail")
                rec["edits"].append("R3: tail expression dropped: " + src.lines[k].strip())
                self.out.emit_src(src, k, "        // (R3 dropped) " + src.lines[k].strip())
                k += 1
                continue
            begin_n = None
            if k in r21_start:
                n, ks, bo_, mte = r21_start[k]
                x = mte.group(1)
                recv = " ".join(mte.group(2).split()).replace(" .", ".")
                args_ = " ".join(mte.group(3).split())
                ind = l[:len(l) - len(l.lstrip())]
                for pl in f.get("loop_pre", {}).get(n, []):
                    if pl.strip():
                        self.out.emit(pl)
                        self.hit("I4.proof_lines")
                self.hit("R21.collect_actions")
                rec["edits"].append("R21: `%s` -> collect, then iterate" % " ".join(src.src[ks:bo_].split()))
                self.out.emit_src(src, k, "%slet r21_v = %s.trigger_events_vec(%s);" % (ind, recv, args_))
                self.out.emit_src(src, k, "%sfor %s in r21_it: r21_v.iter()" % (ind, x))
                ph = {"$i": "r21_it.index@", "$k": "r21_it.index@", "$n": "r21_v@.len()"}
                def subst21(lines):
                    out_ = []
                    for il in lines:
                        for a_, b_ in ph.items():
                            il = il.replace(a_, b_)
                        out_.append(il)
                    return out_
                for il in subst21(f["loops"].get(n, [])):
                    if il.strip():
                        self.out.emit(il)
                        self.hit("I4.contract_lines")
                if f.get("loop_begin", {}).get(n):
                    f["loop_begin"][n] = subst21(f["loop_begin"][n])
                if f.get("loop_end", {}).get(n):
                    f["loop_end"][n] = subst21(f["loop_end"][n])
                bo_ln_ = src.line_of(bo_)
                if src.lines[bo_ln_].strip() != "{" and src.line_of(ks) != bo_ln_:
                    raise LostAnchor("R21: loop body of fn %s does not open on its own line" % name)
                self.out.emit_src(src, bo_ln_, "%s{" % ind)
                for pl in f.get("loop_begin", {}).get(n, []):
                    if pl.strip():
                        self.out.emit(pl)
                        self.hit("I4.proof_lines")
                k = bo_ln_ + 1
                continue
            if k in loop_open_ln:
                n, ks, bo = loop_open_ln[k]
                for pl in f.get("loop_pre", {}).get(n, []):
                    if pl.strip():
                        self.out.emit(pl)
                        self.hit("I4.proof_lines")
                inv = f["loops"].get(n, [])
                lc = match_close(src.code, bo)
                body_code = src.code[bo:lc]
                hdr = src.src[ks:bo]
                mfor = re.match(r"for\s+(\w+)\s+in\s+(.+?)\.\.(.+?)\s*$", hdr, re.S)
                mzip = re.match(r"for\s*\(\s*(\w+)\s*,\s*(\w+)\s*\)\s+in\s+(.+?)\.iter_mut\(\)\.zip\((.+?)\.iter\(\)\)\s*$", hdr, re.S)
                mflat = re.match(r"for\s+(\w+)\s+in\s+(.+?)\.iter\(\)\.flatten\(\)\s*$", hdr, re.S)
                mitm = re.match(r"for\s+(\w+)\s+in\s+(.+?)\.iter_mut\(\)\s*$", hdr, re.S)
                mitme = re.match(r"for\s*\(\s*(\w+)\s*,\s*(\w+)\s*\)\s+in\s+(.+?)\.iter_mut\(\)\.enumerate\(\)\s*$", hdr, re.S)
                menum = re.match(r"for\s*\(\s*(\w+)\s*,\s*(\w+)\s*\)\s+in\s+(.+?)\.iter\(\)\.enumerate\(\)\s*$", hdr, re.S)
                # I4 placeholders that make loop annotations independent of the loop's surface form:
                #   $i = iterations completed (at the loop head), $k = index of the element the body is working
                #   on, $n = the bound
                if mflat:
                    ph = {"$i": "r29_i", "$k": "(r29_i - 1)", "$n": "r29_n"}
                elif mitm or mitme:
                    ph = {"$i": "r24_i", "$k": "(r24_i - 1)", "$n": "r24_n"}
                elif mzip:
                    ph = {"$i": "r16_i", "$k": "(r16_i - 1)", "$n": "r16_n"}
                elif menum:
                    ph = {"$i": "r13_i", "$k": "(r13_i - 1)", "$n": "r13_n"}
                elif mfor and re.search(r"\bcontinue\b", body_code):
                    ph = {"$i": "r7_i", "$k": "(r7_i - 1)", "$n": "r7_n"}
                elif mfor:
                    ph = {"$i": mfor.group(1), "$k": mfor.group(1), "$n": "(%s)" % mfor.group(3).strip()}
                else:
                    ph = {}
                def subst(lines):
                    out_ = []
                    for il in lines:
                        for a_, b_ in ph.items():
                            il = il.replace(a_, b_)
                        if "$i" in il or "$k" in il or "$n" in il:
                            raise LostAnchor("loop %d of fn %s has a form without an index; annotation uses $i/$k/$n" % (n, name))
                        out_.append(il)
                    return out_
                inv = subst(inv)
                if f.get("loop_begin", {}).get(n):
                    f["loop_begin"][n] = subst(f["loop_begin"][n])
                if f.get("loop_end", {}).get(n):
                    f["loop_end"][n] = subst(f["loop_end"][n])
                if mfor and re.search(r"\bcontinue\b", body_code):
                    # R7: desugar `for x in a..b { .. continue .. }`
                    if src.line_of(ks) != k:
                        raise LostAnchor("R7: multi-line for header in fn %s" % name)
                    ind = l[:len(l) - len(l.lstrip())]
                    x, a, b = mfor.group(1), mfor.group(2).strip(), mfor.group(3).strip()
                    self.hit("R7.for_continue")
                    rec["edits"].append("R7: `%s` desugared to while" % hdr.strip())
                    self.out.emit_src(src, k, "%slet mut r7_i: usize = %s; let r7_n: usize = %s;" % (ind, a, b))
                    self.out.emit_src(src, k, "%swhile r7_i < r7_n" % ind)
                    inv = inv + f.get("loops_r7", {}).get(n, [])
                    # invariants written for the `for` form speak about the loop variable; at the head of
                    # the while form its role is played by r7_i.  The bound and the termination measure of
                    # the while form are added mechanically.
                    inv = [re.sub(r"\b%s\b" % re.escape(x), "r7_i", il) for il in inv if il.strip()]
                    body = [il for il in inv if not il.strip().startswith("invariant")
                            and not il.strip().startswith("decreases")]
                    decr = [il for il in inv if il.strip().startswith("decreases")]
                    self.out.emit("%s    invariant" % ind)
                    self.out.emit("%s        r7_i <= r7_n, r7_n == (%s)," % (ind, b))
                    for il in body:
                        self.out.emit(il if il.rstrip().endswith(",") else il.rstrip() + ",")
                        self.hit("I4.contract_lines")
                    for il in (decr or ["%s    decreases r7_n - r7_i" % ind]):
                        self.out.emit(il)
                    self.out.emit_src(src, k, "%s{ let %s = r7_i; r7_i = r7_i + 1;" % (ind, x))
                    begin_n = n
                elif mflat:
                    # R29: desugar `for x in E.iter().flatten() {` (E a slice of Options): index loop, the body runs for
                    # the `Some` entries
                    if src.line_of(ks) != k:
                        raise LostAnchor("R29: multi-line for header in fn %s" % name)
                    ind = l[:len(l) - len(l.lstrip())]
                    xv, ex = mflat.group(1), mflat.group(2).strip()
                    self.hit("R29.for_flatten")
                    rec["edits"].append("R29: `%s` desugared to while + if let" % hdr.strip())
                    self.out.emit_src(src, k, "%slet mut r29_i: usize = 0; let r29_n: usize = %s.len();" % (ind, ex))
                    self.out.emit_src(src, k, "%swhile r29_i < r29_n" % ind)
                    body = [il for il in inv if il.strip() and not il.strip().startswith("invariant")
                            and not il.strip().startswith("decreases")]
                    self.out.emit("%s    invariant" % ind)
                    self.out.emit("%s        r29_i <= r29_n, r29_n == %s.len()," % (ind, ex))
                    for il in body:
                        self.out.emit(il)
                        self.hit("I4.contract_lines")
                    self.out.emit("%s    decreases r29_n - r29_i" % ind)
                    self.out.emit_src(src, k, "%s{ let r29_o = &%s[r29_i]; r29_i = r29_i + 1; if let Some(%s) = r29_o {" % (ind, ex, xv))
                    r29_close.add(src.line_of(match_close(src.code, bo)))
                    begin_n = n
                elif mitm or mitme:
                    # R24: desugar `for x in E.iter_mut() {` / `for (i, x) in E.iter_mut().enumerate() {`
                    if src.line_of(ks) != k:
                        raise LostAnchor("R24: multi-line for header in fn %s" % name)
                    ind = l[:len(l) - len(l.lstrip())]
                    if mitme:
                        xi, xv, ex = mitme.group(1), mitme.group(2), mitme.group(3).strip()
                    else:
                        xi, xv, ex = None, mitm.group(1), mitm.group(2).strip()
                    self.hit("R24.for_iter_mut")
                    rec["edits"].append("R24: `%s` desugared to while" % hdr.strip())
                    self.out.emit_src(src, k, "%slet mut r24_i: usize = 0; let r24_n: usize = %s.len();" % (ind, ex))
                    self.out.emit_src(src, k, "%swhile r24_i < r24_n" % ind)
                    kw = "invariant_except_break" if any(il.strip() == "invariant_except_break" for il in inv) else "invariant"
                    body = [il for il in inv if il.strip() and not il.strip().startswith("invariant")
                            and not il.strip().startswith("decreases")]
                    self.out.emit("%s    %s" % (ind, kw))
                    self.out.emit("%s        r24_i <= r24_n, r24_n == %s.len()," % (ind, ex))
                    for il in body:
                        self.out.emit(il)
                        self.hit("I4.contract_lines")
                    self.out.emit("%s    decreases r24_n - r24_i" % ind)
                    self.out.emit_src(src, k, "%s{ %slet %s = &mut %s[r24_i]; r24_i = r24_i + 1;" %
                                      (ind, ("let %s = r24_i; " % xi) if xi else "", xv, ex))
                    begin_n = n
                elif mzip:
                    # R16: desugar `for (a, b) in X.iter_mut().zip(Y.iter()) {`
                    if src.line_of(ks) != k:
                        raise LostAnchor("R16: multi-line for header in fn %s" % name)
                    ind = l[:len(l) - len(l.lstrip())]
                    xa, xb, ex, ey = mzip.group(1), mzip.group(2), mzip.group(3).strip(), mzip.group(4).strip()
                    self.hit("R16.for_zip")
                    rec["edits"].append("R16: `%s` desugared to while" % hdr.strip())
                    self.out.emit_src(src, k, "%slet mut r16_i: usize = 0; let r16_n: usize = if %s.len() <= %s.len() { %s.len() } else { %s.len() };"
                                      % (ind, ex, ey, ex, ey))
                    self.out.emit_src(src, k, "%swhile r16_i < r16_n" % ind)
                    body = [il for il in inv if il.strip() and not il.strip().startswith("invariant")
                            and not il.strip().startswith("decreases")]
                    self.out.emit("%s    invariant" % ind)
                    self.out.emit("%s        r16_i <= r16_n," % ind)
                    for il in body:
                        self.out.emit(il)
                        self.hit("I4.contract_lines")
                    self.out.emit("%s    decreases r16_n - r16_i" % ind)
                    self.out.emit_src(src, k, "%s{ let %s = &mut %s[r16_i]; let %s = &%s[r16_i]; r16_i = r16_i + 1;" % (ind, xa, ex, xb, ey))
                    begin_n = n
                elif menum:
                    # R13: desugar `for (i, x) in E.iter().enumerate() {`
                    if src.line_of(ks) != k:
                        raise LostAnchor("R13: multi-line for header in fn %s" % name)
                    ind = l[:len(l) - len(l.lstrip())]
                    xi, xv, ex = menum.group(1), menum.group(2), menum.group(3).strip()
                    self.hit("R13.for_enumerate")
                    rec["edits"].append("R13: `%s` desugared to while" % hdr.strip())
                    self.out.emit_src(src, k, "%slet mut r13_i: usize = 0; let r13_n: usize = %s.len();" % (ind, ex))
                    self.out.emit_src(src, k, "%swhile r13_i < r13_n" % ind)
                    inv = [re.sub(r"\b%s\b" % re.escape(xi), "r13_i", il) for il in inv if il.strip()]
                    body = [il for il in inv if not il.strip().startswith("invariant")
                            and not il.strip().startswith("decreases")]
                    self.out.emit("%s    invariant" % ind)
                    self.out.emit("%s        r13_i <= r13_n," % ind)
                    for il in body:
                        self.out.emit(il)
                        self.hit("I4.contract_lines")
                    self.out.emit("%s    decreases r13_n - r13_i" % ind)
                    self.out.emit_src(src, k, "%s{ let %s = r13_i; let %s = &%s[r13_i]; r13_i = r13_i + 1;" % (ind, xi, xv, ex))
                    begin_n = n
                else:
                    col = bo - src.starts[k]
                    hdr_txt = l[:col].rstrip()
                    itn = f.get("loop_iter", {}).get(n)
                    if itn:
                        # I4: name Verus' ghost iterator: `for x in EXPR` -> `for x in <itn>: EXPR`
                        new_hdr = re.sub(r"^(\s*for\s+.+?\s+in\s+)", lambda mm: mm.group(1) + itn + ": ", hdr_txt, count=1)
                        if new_hdr == hdr_txt or src.line_of(ks) != k:
                            raise LostAnchor("iter=: cannot name iterator of loop %d in fn %s" % (n, name))
                        hdr_txt = new_hdr
                        self.hit("I4.iter_name")
                    self.out.emit_src(src, k, hdr_txt)
                    for il in inv:
                        if il.strip():
                            self.out.emit(il)
                            self.hit("I4.contract_lines")
                    if l[col:].strip() != "{" and f.get("loop_begin", {}).get(n):
                        raise LostAnchor("loop_begin: loop %d of fn %s does not open at the end of its header line" % (n, name))
                    self.out.emit_src(src, k, " " * col + l[col:])
                    begin_n = n
            else:
                if k in r29_close:
                    if src.lines[k].strip() != "}":
                        raise LostAnchor("R29: loop of fn %s does not close on its own line" % name)
                    l = l + " }"
                self.out.emit_src(src, k, l if k == open_ln else self.rewrite_line(l, copts))
            if begin_n is not None:
                # I4: ghost lines placed at the very beginning of the loop body
                for pl in f.get("loop_begin", {}).get(begin_n, []):
                    if pl.strip():
                        self.out.emit(pl)
                        self.hit("I4.proof_lines")
            if k == last and f.get("proof_end"):
                # I4: ghost proof block placed immediately before the closing brace of the body
                self.out.lines.pop(); self.out.origin.pop()
                col = p_close - src.starts[k]
                if src.lines[k][:col].strip():
                    raise LostAnchor("proof_end: fn %s does not end with a lone `}`" % name)
                for pl in f["proof_end"]:
                    if pl.strip():
                        self.out.emit(pl)
                        self.hit("I4.proof_lines")
                self.out.emit_src(src, k, l)
            if k in loop_close_ln and f.get("loop_end", {}).get(loop_close_ln[k]):
                # before the closing brace of the loop body (the line must hold only that brace)
                if src.lines[k].strip() != "}":
                    raise LostAnchor("loop_end: loop %d of fn %s does not close on its own line" % (loop_close_ln[k], name))
                self.out.lines.pop(); self.out.origin.pop()
                for pl in f["loop_end"][loop_close_ln[k]]:
                    if pl.strip():
                        self.out.emit(pl)
                        self.hit("I4.proof_lines")
                self.out.emit_src(src, k, l)
            if k in loop_close_ln:
                for pl in f.get("loop_post", {}).get(loop_close_ln[k], []):
                    if pl.strip():
                        self.out.emit(pl)
                        self.hit("I4.proof_lines")
            if k in pa_lines:
                for pl in pa_lines[k]:
                    if pl.strip():
                        self.out.emit(pl)
                        self.hit("I4.proof_lines")
            k += 1
        if drop_tail and not tail_dropped:
            raise LostAnchor("drop_tail %r not found in fn %s" % (drop_tail, name))

    def shim_overrides(self, src, p_open, p_close, rec, name, float_names=None):
        """rules R10, R11, R12, R14 on the body text; returns {line index: new text}.  Edits are
        computed on code-only text (comments and literals masked) and never change the line count."""
        code, text = src.code, src.src
        edits = []   # (start, end, replacement, rule)

        def overlaps(a, b):
            return any(a < e and s < b for s, e, _, _ in edits)

        # R26: `assert!(COND, "msg");` -> `crate::shim::rt_assert(COND);` (requires COND: the assertion never fires)
        for m in re.finditer(r"\bassert!\s*\(", code[p_open:p_close]):
            po = p_open + m.end() - 1
            pc = match_close(code, po, "(", ")")
            inner_code, inner = code[po + 1:pc], text[po + 1:pc]
            depth, cut = 0, None
            for j, ch in enumerate(inner_code):
                if ch in "([{":
                    depth += 1
                elif ch in ")]}":
                    depth -= 1
                elif ch == "," and depth == 0:
                    cut = j
                    break
            cond = inner[:cut] if cut is not None else inner
            nl = text.count("\n", p_open + m.start(), pc + 1)
            edits.append((p_open + m.start(), pc + 1, "crate::shim::rt_assert(%s%s)" % (" ".join(cond.split()), "\n" * nl), "R26"))
        # R27: `panic!("msg");` -> `return crate::shim::rt_unreachable();` (requires false: the line is never reached)
        for m in re.finditer(r"\bpanic!\s*\(", code[p_open:p_close]):
            po = p_open + m.end() - 1
            pc = match_close(code, po, "(", ")")
            nl = text.count("\n", p_open + m.start(), pc + 1)
            edits.append((p_open + m.start(), pc + 1, "return crate::shim::rt_unreachable(%s)" % ("\n" * nl), "R27"))
        # R22: `debug!( .. );` statements (log output) are removed
        for m in re.finditer(r"\bdebug!\s*\(", code[p_open:p_close]):
            po = p_open + m.end() - 1
            pc = match_close(code, po, "(", ")")
            end = pc + 1
            while end < p_close and code[end] in " \t":
                end += 1
            if code[end] == ";":
                end += 1
            nl = text.count("\n", p_open + m.start(), end)
            edits.append((p_open + m.start(), end, "{" + "\n" * nl + "}", "R22"))
        # R23: `x.clone()` -> `x.clone_of()` (same method resolution; CloneOf's contract: the result equals the receiver)
        for m in re.finditer(r"\.clone\(\)", code[p_open:p_close]):
            a_, b_ = p_open + m.start(), p_open + m.end()
            if overlaps(a_, b_):
                continue
            edits.append((a_, b_, ".clone_of()", "R23"))
        for m in re.finditer(r"\bformat!\s*\(", code[p_open:p_close]):
            po = p_open + m.end() - 1
            pc = match_close(code, po, "(", ")")
            nl = text.count("\n", p_open + m.start(), pc + 1)
            edits.append((p_open + m.start(), pc + 1, "crate::shim::fmt_msg(" + "\n" * nl + ")", "R10"))
        for m in re.finditer(r'"(?:[^"\\\n]|\\.)*"\.to_string\(\)|\b[a-z_]\w*\.to_string\(\)', text[p_open:p_close]):
            a, b = p_open + m.start(), p_open + m.end()
            dot = text.rfind(".to_string", a, b)
            if code[dot:b] != text[dot:b] or overlaps(a, b):
                continue   # inside a comment / string / an already replaced format!
            edits.append((a, b, "crate::shim::fmt_msg()", "R10"))
        for m in re.finditer(r"\(\s*(\d+\.\d+)\s*\.\.=\s*(\d+\.\d+)\s*\)\s*\.contains\s*\(\s*&", code[p_open:p_close]):
            po = p_open + m.end() - 2
            while code[po] != "(":
                po -= 1
            pc = match_close(code, po, "(", ")")
            arg = text[p_open + m.end():pc]
            if "\n" in arg:
                raise LostAnchor("R14: multi-line contains() argument in fn %s" % name)
            edits.append((p_open + m.start(), pc + 1,
                          "crate::shim::f_in_incl(%s, %s, %s)" % (m.group(1), m.group(2), arg.strip()), "R14"))
        # R18: slicing a `&str` parameter by a literal byte range -> crate::shim::str_sub (no panic-freedom claim)
        sig_lo = code.rfind("fn ", 0, p_open)
        strs = set(re.findall(r"\b(\w+)\s*:\s*&\s*(?:'\w+\s+)?str\b", code[sig_lo:p_open]))
        for v in sorted(strs):
            for m in re.finditer(r"&\s*%s\s*\[\s*(\d*)\s*\.\.\s*(\d*)\s*\]" % re.escape(v), code[p_open:p_close]):
                lo_, hi_ = m.group(1) or "0", m.group(2)
                edits.append((p_open + m.start(), p_open + m.end(),
                              "crate::shim::str_sub(%s, %s, %s)" % (v, lo_, ("Some(%s)" % hi_) if hi_ else "None"), "R18"))
        # R15: rand's `rng.gen_range(<lit>..<lit>)` -> crate::shim::gen_range_f(rng, <lit>, <lit>)
        for m in re.finditer(r"\b(\w+)\.gen_range\(\s*(\d+\.\d+|[a-z_]\w*)\s*\.\.(=?)\s*(\d+\.\d+|[a-z_]\w*)\s*\)", code[p_open:p_close]):
            both_lit = re.fullmatch(r"\d+\.\d+", m.group(2)) and re.fullmatch(r"\d+\.\d+", m.group(4))
            edits.append((p_open + m.start(), p_open + m.end(),
                          "crate::shim::gen_range%s%s_f(%s, %s, %s)" % ("_incl" if m.group(3) else "", "" if both_lit else "_chk",
                                                                       m.group(1), m.group(2), m.group(4)), "R15"))
        # float locals, recognised lexically: declared with a float type, or initialised with a float
        # literal or with gen_range over float literals
        fl = set(re.findall(r"\blet\s+(?:mut\s+)?(\w+)\s*:\s*f(?:32|64)\b", code[p_open:p_close]))
        fl |= set(re.findall(r"\blet\s+(?:mut\s+)?(\w+)\s*=\s*\d+\.\d+\s*;", code[p_open:p_close]))
        fl |= set(re.findall(r"\blet\s+(?:mut\s+)?(\w+)\s*=\s*\w+\.gen_range\(\s*\d+\.\d+\s*\.\.", code[p_open:p_close]))
        for v in sorted(fl):
            for m in re.finditer(r"(?m)^(\s*)%s\s*\+=\s*([^;\n]+);" % re.escape(v), code[p_open:p_close]):
                a, b = p_open + m.start() + len(m.group(1)), p_open + m.end()
                e = text[p_open + m.start(2):p_open + m.end(2)]
                edits.append((a, b, "%s = crate::shim::f_add(%s, %s);" % (v, v, e.strip()), "R11"))
        fl |= set(x.strip() for x in (float_names or "").split(",") if x.strip())
        # R11b: `let x = A <aop> B;` with A, B float atoms -> `let x = crate::shim::f_<aop>(A, B);` (x is then a float local)
        aops = {"+": "f_add", "-": "f_sub", "*": "f_mul", "/": "f_div"}
        lit = r"\d[\d_]*\.\d[\d_]*"
        path = r"(?:[A-Za-z_]\w*)(?:\.\w+)*"
        is_lit = lambda x: re.fullmatch(lit, x) is not None
        changed = True
        while changed:
            changed = False
            for m in re.finditer(r"\blet\s+(?:mut\s+)?(\w+)\s*=\s*(%s|%s)\s*([-+*/])\s*(%s|%s)\s*;" % (path, lit, path, lit), code[p_open:p_close]):
                x, a_, op_, b_ = m.group(1), m.group(2), m.group(3), m.group(4)
                if x in fl or not ((a_ in fl or is_lit(a_)) and (b_ in fl or is_lit(b_))):
                    continue
                fl.add(x)
                changed = True
                edits.append((p_open + m.start(2), p_open + m.end(4), "crate::shim::%s(%s, %s)" % (aops[op_], a_, b_), "R11"))
        # R12: comparisons in which a float atom takes part.  Token based: an operand is `atom` or
        # `atom <aop> atom`; anything more complex next to a float comparison is refused (exit 2).
        ops = {"<=": "f_le", "<": "f_lt", ">=": "f_ge", ">": "f_gt", "==": "f_eq", "!=": "f_ne"}
        tok_re = re.compile(r"\s+|(%s)|(%s)|(\d\w*)|(<=|>=|==|!=|&&|\|\||->|=>|::|\.\.=|\.\.|[-+*/%%<>=!&|^.,;:(){}\[\]#?@$~'\"\\])" % (lit, path))
        toks, pos_ = [], p_open
        while pos_ < p_close:
            m = tok_re.match(code, pos_)
            if not m or m.end() == pos_:
                pos_ += 1
                continue
            if m.group(0).strip():
                toks.append((m.group(0), m.start(), m.end()))
            pos_ = m.end()
        is_atom = lambda t: re.fullmatch(lit, t) is not None or (re.fullmatch(path, t) is not None and t not in
                                                               ("if", "while", "return", "let", "mut", "match", "else", "in", "as"))
        is_f = lambda t: is_lit(t) or t in fl
        LEFT_OK = {"(", "||", "&&", "!", "if", "{", "=", ",", "return", "while", ";"}
        RIGHT_OK = {")", "||", "&&", "{", ";", ","}

        def term_left(i):
            """tokens ending at index i that form a term; returns (start_index, text, atoms) or None"""
            if i < 0 or not is_atom(toks[i][0]):
                return None
            if i >= 2 and toks[i - 1][0] in aops and is_atom(toks[i - 2][0]):
                return (i - 2, "crate::shim::%s(%s, %s)" % (aops[toks[i - 1][0]], toks[i - 2][0], toks[i][0]), [toks[i - 2][0], toks[i][0]])
            return (i, toks[i][0], [toks[i][0]])

        def term_right(i):
            if i >= len(toks) or not is_atom(toks[i][0]):
                return None
            if i + 2 < len(toks) and toks[i + 1][0] in aops and is_atom(toks[i + 2][0]):
                return (i + 2, "crate::shim::%s(%s, %s)" % (aops[toks[i + 1][0]], toks[i][0], toks[i + 2][0]), [toks[i][0], toks[i + 2][0]])
            return (i, toks[i][0], [toks[i][0]])

        for i, (t, ts, te) in enumerate(toks):
            if t not in ops:
                continue
            L, R = term_left(i - 1), term_right(i + 1)
            near = [toks[j][0] for j in (i - 1, i + 1) if 0 <= j < len(toks)]
            if L is None or R is None:
                if any(is_f(x) for x in near):
                    raise LostAnchor("R12: float comparison with an operand the shim rules cannot rewrite in fn %s" % name)
                continue
            if not any(is_f(x) for x in L[2] + R[2]):
                continue
            lprev = toks[L[0] - 1][0] if L[0] > 0 else "{"
            rnext = toks[R[0] + 1][0] if R[0] + 1 < len(toks) else ";"
            if lprev not in LEFT_OK or rnext not in RIGHT_OK:
                raise LostAnchor("R12: float comparison with a compound operand (%s .. %s) in fn %s" % (lprev, rnext, name))
            a, b = toks[L[0]][1], toks[R[0]][2]
            if overlaps(a, b):
                continue
            edits.append((a, b, "crate::shim::%s(%s, %s)" % (ops[t], L[1], R[1]), "R12"))
        if not edits:
            return {}
        edits.sort()
        for (s1, e1, _, _), (s2, _, _, _) in zip(edits, edits[1:]):
            if s2 < e1:
                raise LostAnchor("shim rules overlap in fn %s" % name)
        first_ln = src.line_of(p_open)
        lo = src.starts[first_ln]
        last_ln = src.line_of(p_close)
        hi = src.starts[last_ln + 1] - 1
        out, pos = [], lo
        for s1, e1, rep, rule in edits:
            out.append(text[pos:s1])
            out.append(rep)
            pos = e1
            self.hit(rule + ".shim")
            rec["edits"].append("%s: `%s` -> `%s`" % (rule, " ".join(text[s1:e1].split())[:80], rep.replace("\n", "")))
        out.append(text[pos:hi])
        new_lines = "".join(out).split("\n")
        old_lines = src.lines[first_ln:last_ln + 1]
        if len(new_lines) != len(old_lines):
            raise LostAnchor("shim rules changed the line count of fn %s" % name)
        return {first_ln + i: nl for i, (nl, ol) in enumerate(zip(new_lines, old_lines)) if nl != ol}

    def code_line(self, src, k):
        return src.code[src.starts[k]:src.starts[k + 1] - 1] if k + 1 < len(src.starts) else ""


def main():
    import argparse
    ap = argparse.ArgumentParser()
    ap.add_argument("--repo", default="/repo")
    ap.add_argument("--template", required=True)
    ap.add_argument("--out", required=True)
    ap.add_argument("--report", required=True)
    a = ap.parse_args()
    try:
        ex = Extractor(a.repo, a.template).run()
    except LostAnchor as e:
        print("LOST-ANCHOR: %s" % e)
        sys.exit(2)
    os.makedirs(os.path.dirname(a.out), exist_ok=True)
    with open(a.out, "w") as f:
        f.write("\n".join(ex.out.lines) + "\n")
    ex.report["line_map"] = [o and [o[0], o[1]] for o in ex.out.origin]
    with open(a.report, "w") as f:
        json.dump(ex.report, f)
    print("extracted %d functions, %d items, %d lines" %
          (len(ex.report["functions"]), len(ex.report["items"]), len(ex.out.lines)))


if __name__ == "__main__":
    main()
