"""Minimal lexical scanner for Rust source: enough to find items and match braces
without being fooled by comments, strings, chars and lifetimes.  No parsing of expressions.
Used by the Verus extractor and the Kani annotator.  Any anchor that cannot be found raises
LostAnchor, which the driver turns into exit code 2 (undecided), never into a violation."""
import re


class LostAnchor(Exception):
    pass


def code_mask(src):
    """bytearray m, m[i]==1 iff src[i] is code (not inside comment / string / char literal)."""
    n = len(src)
    m = bytearray(b"\x01") * n
    i = 0
    while i < n:
        c = src[i]
        if c == "/" and i + 1 < n and src[i + 1] == "/":
            j = src.find("\n", i)
            if j < 0:
                j = n
            for k in range(i, j):
                m[k] = 0
            i = j
        elif c == "/" and i + 1 < n and src[i + 1] == "*":
            depth, j = 1, i + 2
            while j < n and depth:
                if src.startswith("/*", j):
                    depth += 1
                    j += 2
                elif src.startswith("*/", j):
                    depth -= 1
                    j += 2
                else:
                    j += 1
            for k in range(i, j):
                m[k] = 0
            i = j
        elif c == '"' or (c == "r" and re.match(r'r#*"', src[i:i + 8]) and not (i and (src[i - 1].isalnum() or src[i - 1] == "_"))) \
                or (c == "b" and i + 1 < n and src[i + 1] == '"' and not (i and (src[i - 1].isalnum() or src[i - 1] == "_"))):
            if c == "b":
                i_start = i
                i += 1
                c = '"'
            else:
                i_start = i
            if c == '"':
                j = i + 1
                while j < n and src[j] != '"':
                    j += 2 if src[j] == "\\" else 1
                j += 1
            else:
                mm = re.match(r'r(#*)"', src[i:])
                term = '"' + mm.group(1)
                j = src.find(term, i + len(mm.group(0)))
                j = n if j < 0 else j + len(term)
            for k in range(i_start, min(j, n)):
                m[k] = 0
            i = j
        elif c == "'":
            # char literal or lifetime
            mm = re.match(r"'(\\.[^']*|[^\\'])'", src[i:i + 12])
            if mm:
                for k in range(i, i + len(mm.group(0))):
                    m[k] = 0
                i += len(mm.group(0))
            else:
                i += 1
        else:
            i += 1
    return m


def code_only(src, mask=None):
    """src with every non-code char replaced by a space (newlines kept)."""
    if mask is None:
        mask = code_mask(src)
    return "".join(ch if (mask[i] or ch == "\n") else " " for i, ch in enumerate(src))


def match_close(code, i, open_ch="{", close_ch="}"):
    """code: code_only text; i: index of an open_ch.  Returns index of the matching close_ch."""
    assert code[i] == open_ch, (code[i - 20:i + 20], i)
    depth = 0
    for j in range(i, len(code)):
        ch = code[j]
        if ch == open_ch:
            depth += 1
        elif ch == close_ch:
            depth -= 1
            if depth == 0:
                return j
    raise LostAnchor("unbalanced %s at %d" % (open_ch, i))


def find_one(code, regex, lo=0, hi=None, what=None):
    """exactly one match of regex in code[lo:hi]; returns the match object (absolute positions
    via m.start()+lo ...).  Raises LostAnchor when 0 or >1."""
    hi = len(code) if hi is None else hi
    ms = list(re.finditer(regex, code[lo:hi], re.M))
    if len(ms) != 1:
        raise LostAnchor("anchor %r matched %d times (%s)" % (regex, len(ms), what or ""))
    return ms[0]


def body_open(code, pos):
    """index of the first '{' at paren/bracket depth 0 at or after pos."""
    depth = 0
    for j in range(pos, len(code)):
        ch = code[j]
        if ch in "([":
            depth += 1
        elif ch in ")]":
            depth -= 1
        elif ch == "{" and depth == 0:
            return j
        elif ch == ";" and depth == 0:
            raise LostAnchor("item at %d has no body" % pos)
    raise LostAnchor("no body after %d" % pos)


def item_start_line(lines, ln):
    """walk upwards from line index ln over attributes and doc comments; returns first line index."""
    k = ln
    while k > 0:
        s = lines[k - 1].strip()
        if s.startswith("///") or s.startswith("#[") or s.startswith("//!"):
            k -= 1
        else:
            break
    return k


def line_of(src, pos):
    return src.count("\n", 0, pos)


def loops_in(code, lo, hi):
    """positions (keyword_start, brace_open) of for/while/loop statements in code[lo:hi], in order."""
    out = []
    for m in re.finditer(r"\b(for|while|loop)\b", code[lo:hi]):
        ks = lo + m.start()
        # `for` in `impl X for Y` / HRTB never occurs inside fn bodies we extract
        try:
            bo = body_open(code, lo + m.end())
        except LostAnchor:
            continue
        out.append((ks, bo))
    return out
