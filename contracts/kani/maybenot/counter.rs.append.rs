// ---------------------------------------------------------------------------------------------
// Appended by /verif (Kani unit K-CLAMP, counter part). cfg(kani) only.
#[cfg(kani)]
pub(crate) mod verif_proofs {
    use super::*;
    use crate::dist::verif_proofs::{any_dist, AnyRng};

    fn sample_contract<R: RngCore>(_d: Dist, _rng: &mut R) -> f64 {
        let r: f64 = kani::any();
        kani::assume(!r.is_nan() && r >= 0.0);
        r
    }

    /// [C08.unit] no distribution => the value 1; any sampled value converts without panic
    #[kani::proof]
    #[kani::stub(Dist::sample, sample_contract)]
    pub(crate) fn k_counter_value() {
        let op = match kani::any::<u8>() {
            0 => Operation::Increment,
            1 => Operation::Decrement,
            _ => Operation::Set,
        };
        let c = Counter { operation: op, dist: if kani::any() { Some(any_dist()) } else { None }, copy: kani::any() };
        let v = c.sample_value(&mut AnyRng);
        if c.dist.is_none() {
            assert!(v == 1, "[C08.unit]");
        }
    }
}
