// ---------------------------------------------------------------------------------------------
// Appended by /verif (Kani units K-SAMPLE, K-VALID-STATE, helper constructors). cfg(kani) only.
#[cfg(kani)]
pub(crate) mod verif_proofs {
    use super::*;

    /// a state whose only transition list (for `ev`) is `list`; built without loops
    pub(crate) fn mk_state(action: Option<Action>, ev: usize, list: Option<Vec<Trans>>) -> State {
        let mut transitions: [Option<Vec<Trans>>; EVENT_NUM] =
            [None, None, None, None, None, None, None, None, None, None, None, None, None];
        transitions[ev] = list;
        State { action, counter: (None, None), transitions }
    }

    fn all_events() -> [Event; EVENT_NUM] {
        [
            Event::NormalRecv, Event::PaddingRecv, Event::TunnelRecv, Event::NormalSent, Event::PaddingSent,
            Event::TunnelSent, Event::BlockingBegin, Event::BlockingEnd, Event::LimitReached, Event::CounterZero,
            Event::TimerBegin, Event::TimerEnd, Event::Signal,
        ]
    }

    /// an RNG that yields one symbolic 32-bit word
    pub struct OneWord(pub u32);
    impl RngCore for OneWord {
        fn next_u32(&mut self) -> u32 {
            self.0
        }
        fn next_u64(&mut self) -> u64 {
            self.0 as u64
        }
        fn fill_bytes(&mut self, _d: &mut [u8]) {}
        fn try_fill_bytes(&mut self, _d: &mut [u8]) -> Result<(), rand::Error> {
            Ok(())
        }
    }

    /// [C06.ev_idx] the discriminant used by sample_state / the Verus spec `ev_idx`
    #[kani::proof]
    pub(crate) fn k_event_index() {
        let evs = all_events();
        let i: usize = kani::any();
        kani::assume(i < EVENT_NUM);
        assert!(evs[i].to_usize() == i, "[C06.ev_idx]");
    }

    fn any_event() -> (Event, usize) {
        let i: usize = kani::any();
        kani::assume(i < EVENT_NUM);
        (all_events()[i], i)
    }

    fn valid_prob(p: f32) -> bool {
        p > 0.0 && p <= 1.0
    }

    /// the uniform draw of rand 0.8.x for `gen_range(0.0f32..1.0)`: 23 random mantissa bits
    fn draw(w: u32) -> f32 {
        (w >> 9) as f32 * (1.0 / 8388608.0)
    }

    /// [C06.threshold] written from the statement: target i is chosen iff the draw falls into the
    /// i-th cumulative interval; no transition on the remaining mass.
    fn spec_sample(list: &[Trans], r: f32) -> Option<usize> {
        let mut c: f32 = 0.0;
        let mut i = 0;
        while i < list.len() {
            c += list[i].1;
            if r < c {
                return Some(list[i].0);
            }
            i += 1;
        }
        None
    }

    macro_rules! k_sample_n {
        ($name:ident, $n:expr) => {
            #[kani::proof]
            #[kani::unwind(6)]
            pub(crate) fn $name() {
                let (ev, ei) = any_event();
                let mut list: Vec<Trans> = Vec::new();
                let mut sum: f32 = 0.0;
                let mut k = 0;
                while k < $n {
                    let t = Trans(kani::any(), kani::any());
                    kani::assume(valid_prob(t.1));
                    sum += t.1;
                    list.push(t);
                    k += 1;
                }
                kani::assume(sum <= 1.0); // validated per-event sum
                let spec_list = list.clone();
                let s = mk_state(None, ei, Some(list));
                let w: u32 = kani::any();
                let mut rng = OneWord(w);
                let got = s.sample_state(ev, &mut rng);
                let want = spec_sample(&spec_list, draw(w));
                assert!(got == want, "[C06.threshold]");
                // a transition declared with probability 1 is always taken
                if $n >= 1 && spec_list[0].1 == 1.0 {
                    assert!(got == Some(spec_list[0].0), "[C06.one]");
                }
                // the Verus leaf contract: the result is one of the declared targets
                if let Some(t) = got {
                    let mut found = false;
                    let mut j = 0;
                    while j < $n {
                        found = found || spec_list[j].0 == t;
                        j += 1;
                    }
                    assert!(found, "[C06.declared]");
                }
                kani::cover!(got.is_none(), "no transition taken");
                kani::cover!(got.is_some(), "transition taken");
                std::mem::forget(s); // no drop glue over the 13 transition slots
            }
        };
    }
    k_sample_n!(k_sample_1, 1);
    k_sample_n!(k_sample_2, 2);
    k_sample_n!(k_sample_3, 3);
    k_sample_n!(k_sample_4, 4);

    /// [C06.none] an event for which the state declares no transitions never moves the machine
    #[kani::proof]
    #[kani::unwind(3)]
    pub(crate) fn k_sample_none() {
        let (ev, _ei) = any_event();
        let s = mk_state(None, 0, None);
        let mut rng = OneWord(kani::any());
        assert!(s.sample_state(ev, &mut rng).is_none(), "[C06.none]");
        std::mem::forget(s);
    }

    // ---- C12: State::validate accepts only well-formed transition lists (bounded: one event slot,
    // at most 2 transitions)
    fn state_wf(list: &[Trans], num_states: usize) -> bool {
        let mut sum: f32 = 0.0;
        let mut i = 0;
        let mut ok = true;
        while i < list.len() {
            let t = list[i];
            ok = ok && (t.0 < num_states || t.0 == STATE_END || t.0 == STATE_SIGNAL);
            ok = ok && !t.1.is_nan() && t.1 > 0.0 && t.1 <= 1.0;
            let mut j = 0;
            while j < i {
                ok = ok && list[j].0 != t.0;
                j += 1;
            }
            sum += t.1;
            i += 1;
        }
        ok && !sum.is_nan() && sum <= 1.0
    }

    pub(crate) fn stub_format(_a: std::fmt::Arguments<'_>) -> String {
        String::new()
    }

    /// HashSet::new() seeds SipHash from the OS RNG; with constant keys the real HashSet code runs on
    /// constants (the set semantics do not depend on the keys)
    pub(crate) fn fixed_random_state() -> std::collections::hash_map::RandomState {
        unsafe { std::mem::zeroed() }
    }

    /// target indices are drawn from a small concrete set (in range, both pseudo-states, out of
    /// range) so that the real HashSet / SipHash code runs on constants; probabilities and
    /// num_states stay fully symbolic
    fn some_target() -> usize {
        match kani::any::<u8>() {
            0 => 0,
            1 => 1,
            2 => STATE_END,
            3 => STATE_SIGNAL,
            _ => 5,
        }
    }

    macro_rules! k_valid_state_n {
        ($name:ident, $n:expr) => {
            #[kani::proof]
            #[kani::unwind(16)]
            #[kani::stub(alloc::fmt::format, stub_format)]
            #[kani::stub(std::collections::hash_map::RandomState::new, fixed_random_state)]
            pub(crate) fn $name() {
                let (_ev, ei) = any_event();
                let mut list: Vec<Trans> = Vec::new();
                let mut k = 0;
                while k < $n {
                    list.push(Trans(some_target(), kani::any()));
                    k += 1;
                }
                let spec_list = list.clone();
                let s = mk_state(None, ei, Some(list));
                let num_states: usize = kani::any();
                let r = s.validate(num_states);
                if r.is_ok() {
                    assert!(state_wf(&spec_list, num_states), "[C12.state]");
                }
                kani::cover!(r.is_ok(), "accepted");
                std::mem::forget(r);
                std::mem::forget(s);
            }
        };
    }
    k_valid_state_n!(k_valid_state_1, 1);
    k_valid_state_n!(k_valid_state_2, 2);

    /// [C12.prob] an accepted transition probability is a real number in (0, 1] and the per-event
    /// sum is at most 1.  Everything but the probabilities is concrete (event slot 0, targets 0 and 1,
    /// two states, fixed SipHash keys) so that the real HashSet code runs on constants.
    #[kani::proof]
    #[kani::unwind(20)]
    #[kani::stub(alloc::fmt::format, stub_format)]
    #[kani::stub(std::collections::hash_map::RandomState::new, fixed_random_state)]
    pub(crate) fn k_valid_state_prob() {
        let p1: f32 = kani::any();
        let p2: f32 = kani::any();
        let two: bool = kani::any();
        let list = if two { vec![Trans(0, p1), Trans(1, p2)] } else { vec![Trans(0, p1)] };
        let s = mk_state(None, 0, Some(list));
        let r = s.validate(2);
        if r.is_ok() {
            assert!(!p1.is_nan() && p1 > 0.0 && p1 <= 1.0, "[C12.prob]");
            if two {
                assert!(!p2.is_nan() && p2 > 0.0 && p2 <= 1.0, "[C12.prob]");
                assert!(p1 + p2 <= 1.0, "[C12.sum]");
            }
        }
        kani::cover!(r.is_ok() && two, "two transitions accepted");
        kani::cover!(r.is_ok() && !two, "one transition accepted");
        std::mem::forget(r);
        std::mem::forget(s);
    }

    /// [C12.parts] a state is accepted only if the distributions of its action and of BOTH counters are
    /// valid.  The state has no transitions (the transition loop is trivial); one harness per shape of
    /// the counter pair, the symbolic distribution is a Uniform with arbitrary parameters and the
    /// other parts are constant and valid, so that no combination of parts is skipped.
    fn const_valid() -> crate::dist::Dist {
        crate::dist::Dist::new(crate::dist::DistType::Uniform { low: 1.0, high: 1.0 }, 0.0, 0.0)
    }

    macro_rules! k_valid_state_parts {
        ($name:ident, $a:expr, $b:expr, $act:expr) => {
            #[kani::proof]
            #[kani::unwind(16)]
            #[kani::stub(alloc::fmt::format, stub_format)]
            pub(crate) fn $name() {
                use crate::dist::verif_proofs::{any_dist_of, dist_params_valid};
                let d = any_dist_of(0);
                let pick = |which: u8| -> Option<crate::dist::Dist> {
                    match which { 0 => None, 1 => Some(const_valid()), _ => Some(d) }
                };
                let op = crate::counter::Operation::Increment;
                let mut s = mk_state(None, 0, None);
                s.counter = (
                    pick($a).map(|x| Counter { operation: op, dist: Some(x), copy: false }),
                    pick($b).map(|x| Counter { operation: op, dist: Some(x), copy: false }),
                );
                s.action = pick($act).map(|x| Action::UpdateTimer { replace: false, duration: x, limit: None });
                let r = s.validate(1);
                if r.is_ok() {
                    assert!(dist_params_valid(&d), "[C12.parts][C01.valid] an invalid distribution was accepted");
                }
                kani::cover!(r.is_ok(), "accepted");
                std::mem::forget(r);
                std::mem::forget(s);
            }
        };
    }
    // (counter A, counter B, action): 0 = absent, 1 = constant valid, 2 = the symbolic one
    k_valid_state_parts!(k_valid_state_a_only, 2, 0, 0);
    k_valid_state_parts!(k_valid_state_b_only, 0, 2, 0);
    k_valid_state_parts!(k_valid_state_a_with_b, 2, 1, 1);
    k_valid_state_parts!(k_valid_state_b_with_a, 1, 2, 1);
    k_valid_state_parts!(k_valid_state_action, 1, 1, 2);

    /// [C06.stored] the transition list a state is built from is the list it samples from: State::new stores, for
    /// every event, exactly the declared (target, probability) pairs in the declared order - nothing dropped,
    /// reordered or altered - and nothing for an event with an empty list.  BOUNDED: the first or the last event with no or two pairs
    /// (any target, any probability bit pattern), the other events empty.
    #[kani::proof]
    #[kani::unwind(15)]
    pub(crate) fn k_state_new() {
        let evs = all_events();
        // (a fully symbolic event index multiplies CBMC's work by 13; the first and the last event stand for all)
        let ei: usize = if kani::any() { 0 } else { EVENT_NUM - 1 };
        let n: usize = if kani::any() { 2 } else { 0 };
        let t0 = Trans(kani::any(), f32::from_bits(kani::any()));
        let t1 = Trans(kani::any(), f32::from_bits(kani::any()));
        let mut m: EnumMap<Event, Vec<Trans>> = enum_map! { _ => vec![] };
        if n >= 1 { m[evs[ei]].push(t0); }
        if n >= 2 { m[evs[ei]].push(t1); }
        let s = State::new(m);
        let mut e = 0;
        while e < EVENT_NUM {
            if e == ei && n > 0 {
                let Some(l) = &s.transitions[e] else { panic!("[C06.stored] a declared list is stored") };
                assert!(l.len() == n, "[C06.stored] no transition is dropped or added");
                assert!(l[0].0 == t0.0 && l[0].1.to_bits() == t0.1.to_bits(), "[C06.stored]");
                if n == 2 {
                    assert!(l[1].0 == t1.0 && l[1].1.to_bits() == t1.1.to_bits(), "[C06.stored] order and values kept");
                }
            } else {
                assert!(s.transitions[e].is_none(), "[C06.stored] no transitions where none are declared");
            }
            e += 1;
        }
        assert!(s.action.is_none() && s.counter.0.is_none() && s.counter.1.is_none(), "[C06.stored]");
        std::mem::forget(s);
    }

    /// [C06.stored] the same at the resolution limit of f32: a declared probability of the smallest positive
    /// subnormal (bit pattern 1) or of exactly 1.0 is stored as declared (concrete values: a cheap companion of
    /// k_state_new that also terminates on code with extra passes over the list)
    #[kani::proof]
    #[kani::unwind(15)]
    pub(crate) fn k_state_new_limits() {
        let tiny = Trans(7, f32::from_bits(1));
        let one = Trans(STATE_END, 1.0);
        let mut m: EnumMap<Event, Vec<Trans>> = enum_map! { _ => vec![] };
        m[Event::NormalSent].push(tiny);
        m[Event::Signal].push(one);
        let s = State::new(m);
        let Some(l) = &s.transitions[Event::NormalSent.to_usize()] else { panic!("[C06.stored] a declared list is stored") };
        assert!(l.len() == 1 && l[0].0 == 7 && l[0].1.to_bits() == 1, "[C06.stored] values at the f32 resolution limit are kept");
        let Some(l) = &s.transitions[Event::Signal.to_usize()] else { panic!("[C06.stored] a declared list is stored") };
        assert!(l.len() == 1 && l[0].0 == STATE_END && l[0].1 == 1.0, "[C06.stored]");
        std::mem::forget(s);
    }
}
