// ---------------------------------------------------------------------------------------------
// Appended by /verif (Kani unit K-CLAMP). cfg(kani) only.
#[cfg(kani)]
pub(crate) mod verif_proofs {
    use super::*;
    use crate::dist::verif_proofs::{any_dist, AnyRng};

    /// what K-DIST proves about Dist::sample, used here as its stub (>= 0, not NaN; the value may
    /// be arbitrarily large, so the clamp is what is being verified)
    fn sample_contract<R: RngCore>(_d: Dist, _rng: &mut R) -> f64 {
        let r: f64 = kani::any();
        kani::assume(!r.is_nan() && r >= 0.0);
        r
    }

    fn any_action() -> Action {
        let lim = if kani::any() { Some(any_dist()) } else { None };
        match kani::any::<u8>() {
            0 => Action::Cancel { timer: Timer::All },
            1 => Action::SendPadding { bypass: kani::any(), replace: kani::any(), timeout: any_dist(), limit: lim },
            2 => Action::BlockOutgoing {
                bypass: kani::any(),
                replace: kani::any(),
                timeout: any_dist(),
                duration: any_dist(),
                limit: lim,
            },
            _ => Action::UpdateTimer { replace: kani::any(), duration: any_dist(), limit: lim },
        }
    }

    #[kani::proof_for_contract(Action::sample_timeout)]
    #[kani::stub(Dist::sample, sample_contract)]
    pub(crate) fn k_clamp_timeout() {
        let a = any_action();
        a.sample_timeout(&mut AnyRng);
    }

    #[kani::proof_for_contract(Action::sample_duration)]
    #[kani::stub(Dist::sample, sample_contract)]
    pub(crate) fn k_clamp_duration() {
        let a = any_action();
        a.sample_duration(&mut AnyRng);
    }

    #[kani::proof_for_contract(Action::sample_limit)]
    #[kani::stub(Dist::sample, sample_contract)]
    pub(crate) fn k_clamp_limit() {
        let a = any_action();
        a.sample_limit(&mut AnyRng);
    }

    /// [C04.field] each sampler reads ITS distribution: with three distinguishable constant distributions (the
    /// `low == high` path of the real Dist::sample, which draws nothing) the result is the clamped, rounded constant
    /// of the right field, for every finite non-negative constant and every action kind / flag / limit presence.
    /// stands for the `low == high` path of Dist::dist_sample (the real one drags every rand_distr sampler into the
    /// CBMC model, which then runs out of memory)
    fn const_dist_sample<R: RngCore>(d: Dist, _rng: &mut R) -> f64 {
        match d.dist {
            crate::dist::DistType::Uniform { low, .. } => low,
            _ => 0.0,
        }
    }

    #[kani::proof]
    #[kani::stub(Dist::dist_sample, const_dist_sample)]
    pub(crate) fn k_sample_fields() {
        let cd = |x: f64| Dist { dist: crate::dist::DistType::Uniform { low: x, high: x }, start: 0.0, max: 0.0 };
        let (a, b, c): (f64, f64, f64) = (kani::any(), kani::any(), kani::any());
        kani::assume(a.is_finite() && a >= 0.0 && b.is_finite() && b >= 0.0 && c.is_finite() && c >= 0.0);
        let has_lim: bool = kani::any();
        let lim = if has_lim { Some(cd(c)) } else { None };
        let kind: u8 = kani::any();
        let act = match kind {
            0 => Action::Cancel { timer: Timer::All },
            1 => Action::SendPadding { bypass: kani::any(), replace: kani::any(), timeout: cd(a), limit: lim },
            2 => Action::BlockOutgoing { bypass: kani::any(), replace: kani::any(), timeout: cd(a), duration: cd(b), limit: lim },
            _ => Action::UpdateTimer { replace: kani::any(), duration: cd(b), limit: lim },
        };
        let day = 86_400_000_000.0f64;
        let t = act.sample_timeout(&mut AnyRng);
        let d = act.sample_duration(&mut AnyRng);
        let l = act.sample_limit(&mut AnyRng);
        let want_t = if kind == 1 || kind == 2 { a.min(day).round() as u64 } else { 0 };
        let want_d = if kind == 2 || kind >= 3 { b.min(day).round() as u64 } else { 0 };
        let want_l = if kind != 0 && has_lim { c.round() as u64 } else { u64::MAX };
        assert!(t == want_t, "[C04.field] the timeout is sampled from the action's timeout distribution");
        assert!(d == want_d, "[C04.field] the duration is sampled from the action's duration distribution");
        assert!(l == want_l, "[C07.field] the limit is sampled from the action's limit distribution");
        kani::cover!(kind == 2 && t != d, "distinguishable");
    }
}
