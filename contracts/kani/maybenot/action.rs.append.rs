// ---------------------------------------------------------------------------------------------
// Appended by /verif (Kani unit K-CLAMP). cfg(kani) only.
#[cfg(kani)]
pub(crate) mod verif_proofs {
    use super::*;
    use crate::dist::verif_proofs::{any_dist, AnyRng};

    /// what K-DIST proves about Dist::sample, used here as its stub (>= 0, not NaN; the value may
    /// be arbitrarily large, so the clamp is what is being verified)
    fn sample_contract<R: RngCore>(_d: Dist, _rng: &mut R) -> f64 {
        let r: f64 = kani::any();
        kani::assume(!r.is_nan() && r >= 0.0);
        r
    }

    fn any_action() -> Action {
        let lim = if kani::any() { Some(any_dist()) } else { None };
        match kani::any::<u8>() {
            0 => Action::Cancel { timer: Timer::All },
            1 => Action::SendPadding { bypass: kani::any(), replace: kani::any(), timeout: any_dist(), limit: lim },
            2 => Action::BlockOutgoing {
                bypass: kani::any(),
                replace: kani::any(),
                timeout: any_dist(),
                duration: any_dist(),
                limit: lim,
            },
            _ => Action::UpdateTimer { replace: kani::any(), duration: any_dist(), limit: lim },
        }
    }

    #[kani::proof_for_contract(Action::sample_timeout)]
    #[kani::stub(Dist::sample, sample_contract)]
    pub(crate) fn k_clamp_timeout() {
        let a = any_action();
        a.sample_timeout(&mut AnyRng);
    }

    #[kani::proof_for_contract(Action::sample_duration)]
    #[kani::stub(Dist::sample, sample_contract)]
    pub(crate) fn k_clamp_duration() {
        let a = any_action();
        a.sample_duration(&mut AnyRng);
    }

    #[kani::proof_for_contract(Action::sample_limit)]
    #[kani::stub(Dist::sample, sample_contract)]
    pub(crate) fn k_clamp_limit() {
        let a = any_action();
        a.sample_limit(&mut AnyRng);
    }
}
