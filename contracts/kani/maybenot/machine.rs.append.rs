// ---------------------------------------------------------------------------------------------
// Appended by /verif (Kani unit K-VALID-MACHINE). cfg(kani) only.
#[cfg(kani)]
pub(crate) mod verif_proofs {
    use super::*;

    fn stub_format(_a: std::fmt::Arguments<'_>) -> String {
        String::new()
    }

    fn frac_ok(f: f64) -> bool {
        !f.is_nan() && f >= 0.0 && f <= 1.0
    }

    /// [C12.fracs] fractions that are not real numbers in [0,1] are rejected.
    /// Harness trick (cost): the machine has no states, so validate() always returns Err; with
    /// `format!` stubbed to the empty string, the message tells which check rejected it: empty =
    /// one of the two fraction checks (they use format!), non-empty = the later "at least one
    /// state" check, i.e. both fractions had been accepted.  The state loop is K-VALID-STATE's job.
    #[kani::proof]
    #[kani::unwind(64)]
    #[kani::stub(alloc::fmt::format, stub_format)]
    pub(crate) fn k_valid_machine() {
        let m = Machine {
            allowed_padding_packets: kani::any(),
            max_padding_frac: kani::any(),
            allowed_blocked_microsec: kani::any(),
            max_blocking_frac: kani::any(),
            states: vec![],
        };
        let r = m.validate();
        match &r {
            Ok(()) => assert!(false, "[C12.states] a machine without states was accepted"),
            Err(Error::Machine(msg)) => {
                // (natively, without the stub, the two fraction messages start with "max_")
                let fractions_accepted = !(msg.is_empty() || msg.starts_with("max_"));
                if fractions_accepted {
                    assert!(frac_ok(m.max_padding_frac) && frac_ok(m.max_blocking_frac), "[C12.fracs]");
                }
                kani::cover!(fractions_accepted, "fractions accepted");
                kani::cover!(!fractions_accepted, "fractions rejected");
            }
            Err(_) => assert!(false, "[C12.fracs] unexpected error kind"),
        }
        std::mem::forget(r);
        std::mem::forget(m);
    }
}
