// ---------------------------------------------------------------------------------------------
// Appended by /verif (Kani units K-PAD, K-BLK, K-NEW).  Compiled only under cfg(kani).
#[cfg(kani)]
pub(crate) mod verif_proofs {
    use super::*;
    use crate::time::{Duration as DurT, Instant as InstT};

    /// carries the obligation tag into Kani's "Failed Checks" description
    pub(crate) fn vtag(_tag: &'static str, b: bool) -> bool {
        b
    }

    // A virtual clock in microseconds: the public time traits instantiated with plain integers.
    #[derive(Clone, Copy, PartialEq, PartialOrd)]
    pub struct VDur(pub u64);
    #[derive(Clone, Copy)]
    pub struct VInst(pub u64);
    impl std::ops::AddAssign for VDur {
        fn add_assign(&mut self, rhs: Self) {
            self.0 += rhs.0;
        }
    }
    impl DurT for VDur {
        fn zero() -> Self {
            VDur(0)
        }
        fn from_micros(m: u64) -> Self {
            VDur(m)
        }
        fn is_zero(&self) -> bool {
            self.0 == 0
        }
        // The division of the pluggable clock is abstracted to an *arbitrary deterministic function*
        // (Ackermann encoding over the two distinct argument pairs a call can produce: the machine's
        // share and the framework's share).  The blocking contract is thereby proved for every clock
        // whose div_duration_f64 is a function of its arguments - which includes IEEE division - and
        // the SAT solver never has to compare two bit-blasted dividers.
        fn div_duration_f64(self, rhs: Self) -> f64 {
            unsafe {
                if self.0 == DIV_ORACLE[0].0 && rhs.0 == DIV_ORACLE[0].1 {
                    return DIV_ORACLE[0].2;
                }
                if self.0 == DIV_ORACLE[1].0 && rhs.0 == DIV_ORACLE[1].1 {
                    return DIV_ORACLE[1].2;
                }
            }
            kani::assume(false);
            0.0
        }
    }
    impl InstT for VInst {
        type Duration = VDur;
        fn saturating_duration_since(&self, earlier: Self) -> VDur {
            VDur(self.0.saturating_sub(earlier.0))
        }
    }
    pub(crate) static mut DIV_ORACLE: [(u64, u64, f64); 2] = [(0, 0, 0.0), (0, 0, 0.0)];
    /// nondeterministic choice of the division function on the (at most two) argument pairs used
    fn init_div_oracle() {
        let o: [(u64, u64, f64); 2] = [(kani::any(), kani::any(), kani::any()), (kani::any(), kani::any(), kani::any())];
        // functional consistency
        kani::assume(!(o[0].0 == o[1].0 && o[0].1 == o[1].1) || o[0].2.to_bits() == o[1].2.to_bits());
        unsafe {
            DIV_ORACLE = o;
        }
    }

    pub struct NoRng;
    impl RngCore for NoRng {
        fn next_u32(&mut self) -> u32 {
            kani::any()
        }
        fn next_u64(&mut self) -> u64 {
            kani::any()
        }
        fn fill_bytes(&mut self, _d: &mut [u8]) {}
        fn try_fill_bytes(&mut self, _d: &mut [u8]) -> Result<(), rand_core::Error> {
            Ok(())
        }
    }
    pub type Fw = Framework<Vec<Machine>, NoRng, VInst>;

    fn is_frac(f: f64) -> bool {
        f >= 0.0 && f <= 1.0
    }

    // ---- C02: written from the statement.  "a fraction over zero packets counts as below",
    // "(if set)" = the fraction limit is > 0.
    // NOTE (solver engineering, not semantics): the totals are formed with the operands in the same
    // order as in below_limit_padding.  Otherwise CBMC has to prove two separately bit-blasted
    // IEEE dividers equivalent, which neither CaDiCaL nor cvc5 finishes; a harmless reordering
    // in /repo therefore yields UNDECIDED (exit 2), never a violation.
    pub(crate) fn frac_below(p: u64, total: u64, max: f64) -> bool {
        !(max > 0.0) || total == 0 || (p as f64) / (total as f64) < max
    }
    pub(crate) fn pad_budget_ok<M, R, T: InstT>(f: &Framework<M, R, T>, rt: &MachineRuntime<T>, m: &Machine) -> bool {
        rt.padding_sent < m.allowed_padding_packets
            || (frac_below(rt.padding_sent, rt.normal_sent + rt.padding_sent, m.max_padding_frac)
                && frac_below(f.padding_sent_packets, f.padding_sent_packets + f.normal_sent_packets, f.max_padding_frac))
    }
    /// preconditions: validated fractions, packet counters below 2^64 (DESIGN 2.3-5)
    pub(crate) fn pad_pre<M, R, T: InstT>(f: &Framework<M, R, T>, rt: &MachineRuntime<T>, m: &Machine) -> bool {
        rt.normal_sent.checked_add(rt.padding_sent).is_some()
            && f.normal_sent_packets.checked_add(f.padding_sent_packets).is_some()
            && is_frac(f.max_padding_frac)
            && is_frac(m.max_padding_frac)
    }

    fn any_fw(now: u64) -> Fw {
        Framework {
            current_time: VInst(now),
            rng: NoRng,
            actions: vec![],
            machines: vec![],
            runtime: vec![],
            max_padding_frac: kani::any(),
            normal_sent_packets: kani::any(),
            padding_sent_packets: kani::any(),
            max_blocking_frac: kani::any(),
            blocking_duration: VDur(kani::any()),
            blocking_started: VInst(kani::any()),
            blocking_active: kani::any(),
            signal_pending: None,
            framework_start: VInst(kani::any()),
        }
    }
    fn any_rt() -> MachineRuntime<VInst> {
        MachineRuntime {
            current_state: 0,
            state_limit: kani::any(),
            padding_sent: kani::any(),
            normal_sent: kani::any(),
            blocking_duration: VDur(kani::any()),
            machine_start: VInst(kani::any()),
            allowed_blocked_microsec: VDur(kani::any()),
            counter_a: kani::any(),
            counter_b: kani::any(),
            counter_zeroed_once: (kani::any(), kani::any()),
        }
    }

    fn pad_inputs() -> (Fw, MachineRuntime<VInst>, Machine) {
        let f = any_fw(kani::any());
        let rt = any_rt();
        let m = Machine {
            allowed_padding_packets: kani::any(),
            max_padding_frac: kani::any(),
            allowed_blocked_microsec: kani::any(),
            max_blocking_frac: kani::any(),
            states: vec![],
        };
        (f, rt, m)
    }

    /// counterexample twin of k_pad: same real function, same pre/postcondition, but a plain
    /// harness whose assertions also run natively (`cargo kani playback`).  Only used to obtain
    /// and replay a failing input after k_pad has failed; it decides nothing.
    #[kani::proof]
    pub(crate) fn k_pad_cex() {
        fn frac() -> f64 {
            let f: f64 = kani::any();
            kani::assume(f >= 0.0 && f <= 1.0);
            f
        }
        let t0 = VInst(0);
        let f: Fw = Framework {
            current_time: t0,
            rng: NoRng,
            actions: vec![],
            machines: vec![],
            runtime: vec![],
            max_padding_frac: frac(),
            normal_sent_packets: kani::any(),
            padding_sent_packets: kani::any(),
            max_blocking_frac: 0.0,
            blocking_duration: VDur(0),
            blocking_started: t0,
            blocking_active: false,
            signal_pending: None,
            framework_start: t0,
        };
        kani::assume(f.normal_sent_packets.checked_add(f.padding_sent_packets).is_some());
        let rt: MachineRuntime<VInst> = MachineRuntime {
            current_state: 0,
            state_limit: kani::any(),
            padding_sent: kani::any(),
            normal_sent: kani::any(),
            blocking_duration: VDur(0),
            machine_start: t0,
            allowed_blocked_microsec: VDur(0),
            counter_a: 0,
            counter_b: 0,
            counter_zeroed_once: (false, false),
        };
        kani::assume(rt.normal_sent.checked_add(rt.padding_sent).is_some());
        let m = Machine {
            allowed_padding_packets: kani::any(),
            max_padding_frac: frac(),
            allowed_blocked_microsec: 0,
            max_blocking_frac: 0.0,
            states: vec![],
        };
        let r = f.below_limit_padding(&rt, &m);
        if r {
            assert!(rt.state_limit > 0, "[C07.pos]");
            assert!(pad_budget_ok(&f, &rt, &m), "[C02.budget]");
        }
    }

    // solver portfolio: the same contract proof run with CaDiCaL (finds counterexamples fast) and
    // with cvc5 (proves the IEEE part fast); the first conclusive answer decides.
    macro_rules! k_pad_variant {
        ($name:ident, $solver:ident) => {
            #[kani::proof_for_contract(Framework::<Vec<Machine>, NoRng, VInst>::below_limit_padding)]
            #[kani::solver($solver)]
            pub(crate) fn $name() {
                let (f, rt, m) = pad_inputs();
                let r = f.below_limit_padding(&rt, &m);
                kani::cover!(r && rt.padding_sent < m.allowed_padding_packets, "true via budget");
                kani::cover!(r && rt.padding_sent >= m.allowed_padding_packets, "true via fractions");
                kani::cover!(!r, "false");
            }
        };
    }
    k_pad_variant!(k_pad, cadical);
    k_pad_variant!(k_pad_cvc5, cvc5);

    // ---- C03: written from the statement, in terms of the pluggable clock's own operations
    // (time.rs): blocked time counts an ongoing block up to now; "time running backwards is zero
    // elapsed time" = saturating_duration_since.
    pub(crate) fn share_below<D: DurT>(blocked: D, since_start: D, max: f64) -> bool {
        // share = blocked / since_start; 0/0 (nothing blocked, no time passed) counts as below,
        // x/0 with x > 0 is an infinite share and is not below
        !(max > 0.0) || !(blocked.div_duration_f64(since_start) >= max)
    }
    pub(crate) fn blk_budget_ok<M, R, T: InstT>(f: &Framework<M, R, T>, rt: &MachineRuntime<T>, m: &Machine) -> bool {
        let replace = matches!(m.states[rt.current_state].action, Some(Action::BlockOutgoing { replace: true, .. }));
        let mut m_blocked = rt.blocking_duration;
        let mut g_blocked = f.blocking_duration;
        if f.blocking_active {
            let ongoing = f.current_time.saturating_duration_since(f.blocking_started);
            m_blocked += ongoing;
            g_blocked += ongoing;
        }
        (replace && f.blocking_active)
            || m_blocked < rt.allowed_blocked_microsec
            || (share_below(m_blocked, f.current_time.saturating_duration_since(rt.machine_start), m.max_blocking_frac)
                && share_below(g_blocked, f.current_time.saturating_duration_since(f.framework_start), f.max_blocking_frac))
    }
    pub(crate) fn blk_pre<M, R, T: InstT>(f: &Framework<M, R, T>, rt: &MachineRuntime<T>, m: &Machine) -> bool {
        rt.current_state < m.states.len() && is_frac(f.max_blocking_frac) && is_frac(m.max_blocking_frac)
    }
    /// accumulated blocked time representable (hypothesis H of DESIGN 4/C01, known finding F5)
    fn blk_headroom(f: &Fw, rt: &MachineRuntime<VInst>) -> bool {
        let ongoing = if f.blocking_active { f.current_time.0.saturating_sub(f.blocking_started.0) } else { 0 };
        rt.blocking_duration.0.checked_add(ongoing).is_some() && f.blocking_duration.0.checked_add(ongoing).is_some()
    }

    fn const_dist() -> crate::dist::Dist {
        crate::dist::Dist::new(crate::dist::DistType::Uniform { low: 1.0, high: 1.0 }, 0.0, 0.0)
    }

    #[kani::proof]
    pub(crate) fn k_blk_cex() {
        init_div_oracle();
        let (f, rt, m) = blk_inputs();
        kani::assume(blk_pre(&f, &rt, &m) && blk_headroom(&f, &rt));
        let r = f.below_limit_blocking(&rt, &m);
        assert!(!r || rt.state_limit > 0, "[C07.pos]");
        assert!(!r || blk_budget_ok(&f, &rt, &m), "[C03.budget]");
    }

    macro_rules! k_blk_variant {
        ($name:ident, $solver:ident) => {
            #[kani::proof_for_contract(Framework::<Vec<Machine>, NoRng, VInst>::below_limit_blocking)]
            #[kani::solver($solver)]
            pub(crate) fn $name() {
                init_div_oracle();
                let (f, rt, m) = blk_inputs();
                kani::assume(blk_headroom(&f, &rt));
                let r = f.below_limit_blocking(&rt, &m);
                kani::cover!(r && f.blocking_active, "true while blocking");
                kani::cover!(r && !f.blocking_active, "true while not blocking");
                kani::cover!(r && m.max_blocking_frac > 0.0 && f.max_blocking_frac > 0.0
                    && !(rt.blocking_duration < rt.allowed_blocked_microsec) && !f.blocking_active,
                    "true via both fraction tests");
                kani::cover!(!r, "false");
            }
        };
    }
    k_blk_variant!(k_blk, cadical);
    k_blk_variant!(k_blk_kissat, kissat);

    fn blk_inputs() -> (Fw, MachineRuntime<VInst>, Machine) {
        let f = any_fw(kani::any());
        let rt = any_rt();
        let mut s = crate::state::State::new(enum_map::enum_map! { _ => vec![] });
        s.action = match kani::any::<u8>() {
            0 => None,
            1 => Some(Action::SendPadding { bypass: kani::any(), replace: kani::any(), timeout: const_dist(), limit: None }),
            _ => Some(Action::BlockOutgoing {
                bypass: kani::any(),
                replace: kani::any(),
                timeout: const_dist(),
                duration: const_dist(),
                limit: None,
            }),
        };
        let m = Machine {
            allowed_padding_packets: kani::any(),
            max_padding_frac: kani::any(),
            allowed_blocked_microsec: kani::any(),
            max_blocking_frac: kani::any(),
            states: vec![s],
        };
        (f, rt, m)
    }

    // ---- C12/C01: Framework::new accepts exactly fractions in [0,1] (zero machines: the machine
    // loop is Verus' job)
    #[kani::proof]
    #[kani::unwind(3)]
    pub(crate) fn k_new_fracs() {
        let p: f64 = kani::any();
        let b: f64 = kani::any();
        let r = Framework::new(Vec::<Machine>::new(), p, b, VInst(kani::any()), NoRng);
        let ok = |f: f64| !f.is_nan() && f >= 0.0 && f <= 1.0;
        assert!(r.is_ok() == (ok(p) && ok(b)), "[C12.new]");
        kani::cover!(r.is_ok(), "accepted");
        std::mem::forget(r);
    }
}
