// ---------------------------------------------------------------------------------------------
// Appended by /verif (Kani units K-DIST, K-VALID-DIST). cfg(kani) only.
#[cfg(kani)]
pub(crate) mod verif_proofs {
    use super::*;

    pub(crate) fn vtag(_tag: &'static str, b: bool) -> bool {
        b
    }

    pub struct AnyRng;
    impl RngCore for AnyRng {
        fn next_u32(&mut self) -> u32 {
            kani::any()
        }
        fn next_u64(&mut self) -> u64 {
            kani::any()
        }
        fn fill_bytes(&mut self, _d: &mut [u8]) {}
        fn try_fill_bytes(&mut self, _d: &mut [u8]) -> Result<(), rand_core::Error> {
            Ok(())
        }
    }

    /// over-approximation of every rand_distr sampler: any f64 at all (NaN and +-inf included)
    fn any_dist_sample<R: RngCore>(_d: Dist, _rng: &mut R) -> f64 {
        kani::any()
    }

    pub(crate) fn any_dist() -> Dist {
        any_dist_of(kani::any())
    }

    /// a distribution of one of the 7 families whose constructors Kani can execute
    pub(crate) fn any_supported_dist() -> Dist {
        let fams: [u8; 7] = [0, 1, 2, 3, 4, 6, 8];
        let i: usize = kani::any();
        kani::assume(i < 7);
        any_dist_of(fams[i])
    }

    pub(crate) fn any_dist_of(family: u8) -> Dist {
        let a: f64 = kani::any();
        let b: f64 = kani::any();
        let c: f64 = kani::any();
        let dist = match family {
            0 => DistType::Uniform { low: a, high: b },
            1 => DistType::Normal { mean: a, stdev: b },
            2 => DistType::SkewNormal { location: a, scale: b, shape: c },
            3 => DistType::LogNormal { mu: a, sigma: b },
            4 => DistType::Binomial { trials: kani::any(), probability: a },
            5 => DistType::Geometric { probability: a },
            6 => DistType::Pareto { scale: a, shape: b },
            7 => DistType::Poisson { lambda: a },
            8 => DistType::Weibull { scale: a, shape: b },
            9 => DistType::Gamma { scale: a, shape: b },
            _ => DistType::Beta { alpha: a, beta: b },
        };
        Dist { dist, start: kani::any(), max: kani::any() }
    }

    /// [C13.*] for every family, every start/max (NaN, infinities) and every value the underlying
    /// sampler could return
    #[kani::proof]
    #[kani::stub(Dist::dist_sample, any_dist_sample)]
    pub(crate) fn k_dist_sample() {
        let d = any_dist();
        let mut rng = AnyRng;
        let r = d.sample(&mut rng);
        assert!(!r.is_nan(), "[C13.nan]");
        assert!(r >= 0.0, "[C13.nonneg]");
        assert!(!(d.max > 0.0) || r <= d.max, "[C13.max]");
        assert!(r.is_finite(), "[C13.real] the sample is a real number");
        kani::cover!(r == 0.0);
        kani::cover!(r > 0.0);
    }

    /// counterexample twin of k_dist_sample that needs no stub (so that it replays natively): the
    /// constant path Uniform { low == high } of the real dist_sample, which reaches every value
    /// low + start.  Decides nothing.
    #[kani::proof]
    #[kani::unwind(2)]
    pub(crate) fn k_dist_sample_cex() {
        let low: f64 = kani::any();
        kani::assume(low.is_finite());
        let d = Dist { dist: DistType::Uniform { low, high: low }, start: kani::any(), max: kani::any() };
        let r = d.sample(&mut AnyRng);
        assert!(!r.is_nan(), "[C13.nan]");
        assert!(r >= 0.0, "[C13.nonneg]");
        assert!(!(d.max > 0.0) || r <= d.max, "[C13.max]");
        assert!(r.is_finite(), "[C13.real] the sample is a real number");
    }

    fn stub_format(_a: std::fmt::Arguments<'_>) -> String {
        String::new()
    }

    /// [C12.dist] written from the statement: an accepted distribution has parameters the
    /// underlying sampler accepts (same argument order as dist_sample) and respects the explicit
    /// bounds that keep sampling fast
    pub(crate) fn dist_params_valid(d: &Dist) -> bool {
        match d.dist {
            DistType::Uniform { low, high } => {
                !low.is_nan() && !high.is_nan() && low.is_finite() && high.is_finite() && low <= high && (high - low).is_finite()
            }
            DistType::Normal { mean, stdev } => Normal::new(mean, stdev).is_ok(),
            DistType::SkewNormal { location, scale, shape } => SkewNormal::new(location, scale, shape).is_ok(),
            DistType::LogNormal { mu, sigma } => LogNormal::new(mu, sigma).is_ok(),
            DistType::Binomial { trials, probability } => {
                Binomial::new(trials, probability).is_ok()
                    && (probability == 0.0 || probability >= DIST_MIN_PROBABILITY)
                    && trials <= 1_000_000_000
            }
            DistType::Geometric { probability } => {
                Geometric::new(probability).is_ok() && (probability == 0.0 || probability >= DIST_MIN_PROBABILITY)
            }
            DistType::Pareto { scale, shape } => Pareto::new(scale, shape).is_ok(),
            DistType::Poisson { lambda } => Poisson::new(lambda).is_ok() && lambda <= 1e42,
            DistType::Weibull { scale, shape } => Weibull::new(scale, shape).is_ok(),
            DistType::Gamma { scale, shape } => Gamma::new(shape, scale).is_ok(),
            DistType::Beta { alpha, beta } => Beta::new(alpha, beta).is_ok(),
        }
    }

    // one harness per family (the 11 families are independent; Geometric::new contains a
    // squaring loop over the symbolic probability and needs a larger unwinding bound)
    macro_rules! k_valid_dist_family {
        ($name:ident, $family:expr, $unwind:expr) => {
            #[kani::proof]
            #[kani::unwind($unwind)]
            #[kani::stub(alloc::fmt::format, stub_format)]
            pub(crate) fn $name() {
                let d = any_dist_of($family);
                let r = d.validate();
                if r.is_ok() {
                    assert!(dist_params_valid(&d), "[C12.dist][C13.valid] a distribution the sampler cannot be built from was accepted");
                }
                kani::cover!(r.is_ok(), "accepted");
                std::mem::forget(r);
            }
        };
    }
    k_valid_dist_family!(k_valid_dist_uniform, 0, 2);
    k_valid_dist_family!(k_valid_dist_normal, 1, 2);
    k_valid_dist_family!(k_valid_dist_skewnormal, 2, 2);
    k_valid_dist_family!(k_valid_dist_lognormal, 3, 2);
    k_valid_dist_family!(k_valid_dist_binomial, 4, 2);
    k_valid_dist_family!(k_valid_dist_geometric, 5, 70);
    k_valid_dist_family!(k_valid_dist_pareto, 6, 2);
    k_valid_dist_family!(k_valid_dist_poisson, 7, 2);
    k_valid_dist_family!(k_valid_dist_weibull, 8, 2);
    k_valid_dist_family!(k_valid_dist_gamma, 9, 2);
    k_valid_dist_family!(k_valid_dist_beta, 10, 2);
}
