// ---------------------------------------------------------------------------------------------
// Appended by /verif (Kani unit K-FFI, null-pointer contract of the extern "C" entry points).
#[cfg(kani)]
pub(crate) mod verif_proofs {
    use super::*;
    use crate::{MaybenotAction, MaybenotEvent, MaybenotEventType};

    /// [C20.null] every null argument is reported through its error code without a dereference
    /// (no instance is needed on these paths, so the OS RNG is never touched)
    #[kani::proof]
    pub(crate) fn k_ffi_null_args() {
        let mut n: usize = 0;
        let mut act = core::mem::MaybeUninit::<MaybenotAction>::uninit();
        let ev = MaybenotEvent { event_type: MaybenotEventType::NormalSent, machine: 0 };
        unsafe {
            let r = maybenot_on_events(core::ptr::null_mut(), &ev, 1, &mut act as *mut core::mem::MaybeUninit<MaybenotAction>, &mut n);
            assert!(matches!(r, MaybenotResult::NullPointer), "[C20.null]");
            let r = maybenot_num_machines(core::ptr::null_mut());
            assert!(r == 0, "[C20.null]");
            let r = maybenot_start(core::ptr::null(), 0.0, 0.0, core::ptr::null_mut());
            assert!(matches!(r, MaybenotResult::NullPointer), "[C20.null]");
        }
    }
}
