// ---------------------------------------------------------------------------------------------
// Appended by /verif (Kani unit K-FFI). cfg(kani) only.
#[cfg(kani)]
pub(crate) mod verif_proofs {
    use super::*;

    fn any_duration() -> Duration {
        let s: u64 = kani::any();
        let n: u32 = kani::any();
        kani::assume(n < 1_000_000_000);
        Duration::new(s, n)
    }

    fn dur_eq(d: Duration, m: MaybenotDuration) -> bool {
        m.secs == d.as_secs() && m.nanos == d.subsec_nanos()
    }

    /// [C20.action] field for field: kind, machine, flags, timer, seconds and nanoseconds
    #[kani::proof]
    pub(crate) fn k_ffi_convert_action() {
        let machine = MachineId::from_raw(kani::any());
        let timeout = any_duration();
        let duration = any_duration();
        let bypass: bool = kani::any();
        let replace: bool = kani::any();
        let timer = match kani::any::<u8>() {
            0 => maybenot::Timer::Action,
            1 => maybenot::Timer::Internal,
            _ => maybenot::Timer::All,
        };
        let a: maybenot::TriggerAction = match kani::any::<u8>() {
            0 => maybenot::TriggerAction::Cancel { machine, timer },
            1 => maybenot::TriggerAction::SendPadding { timeout, bypass, replace, machine },
            2 => maybenot::TriggerAction::BlockOutgoing { timeout, duration, bypass, replace, machine },
            _ => maybenot::TriggerAction::UpdateTimer { duration, replace, machine },
        };
        let c = convert_action(&a);
        let ok = match (&a, c) {
            (maybenot::TriggerAction::Cancel { machine, timer }, MaybenotAction::Cancel { machine: m2, timer: t2 }) => {
                m2 == machine.into_raw()
                    && matches!(
                        (timer, t2),
                        (maybenot::Timer::Action, MaybenotTimer::Action)
                            | (maybenot::Timer::Internal, MaybenotTimer::Internal)
                            | (maybenot::Timer::All, MaybenotTimer::All)
                    )
            }
            (
                maybenot::TriggerAction::SendPadding { timeout, bypass, replace, machine },
                MaybenotAction::SendPadding { machine: m2, timeout: t2, replace: r2, bypass: b2 },
            ) => m2 == machine.into_raw() && dur_eq(*timeout, t2) && r2 == *replace && b2 == *bypass,
            (
                maybenot::TriggerAction::BlockOutgoing { timeout, duration, bypass, replace, machine },
                MaybenotAction::BlockOutgoing { machine: m2, timeout: t2, replace: r2, bypass: b2, duration: d2 },
            ) => m2 == machine.into_raw() && dur_eq(*timeout, t2) && dur_eq(*duration, d2) && r2 == *replace && b2 == *bypass,
            (
                maybenot::TriggerAction::UpdateTimer { duration, replace, machine },
                MaybenotAction::UpdateTimer { machine: m2, duration: d2, replace: r2 },
            ) => m2 == machine.into_raw() && dur_eq(*duration, d2) && r2 == *replace,
            _ => false,
        };
        assert!(ok, "[C20.action]");
    }

    /// [C20.event] all 10 event types, any machine id
    #[kani::proof]
    pub(crate) fn k_ffi_convert_event() {
        let machine: usize = kani::any();
        let ty = match kani::any::<u8>() {
            0 => MaybenotEventType::NormalRecv,
            1 => MaybenotEventType::PaddingRecv,
            2 => MaybenotEventType::TunnelRecv,
            3 => MaybenotEventType::NormalSent,
            4 => MaybenotEventType::PaddingSent,
            5 => MaybenotEventType::TunnelSent,
            6 => MaybenotEventType::BlockingBegin,
            7 => MaybenotEventType::BlockingEnd,
            8 => MaybenotEventType::TimerBegin,
            _ => MaybenotEventType::TimerEnd,
        };
        let e = convert_event(MaybenotEvent { event_type: ty, machine });
        let id = MachineId::from_raw(machine);
        let want = match ty {
            MaybenotEventType::NormalRecv => TriggerEvent::NormalRecv,
            MaybenotEventType::PaddingRecv => TriggerEvent::PaddingRecv,
            MaybenotEventType::TunnelRecv => TriggerEvent::TunnelRecv,
            MaybenotEventType::NormalSent => TriggerEvent::NormalSent,
            MaybenotEventType::PaddingSent => TriggerEvent::PaddingSent { machine: id },
            MaybenotEventType::TunnelSent => TriggerEvent::TunnelSent,
            MaybenotEventType::BlockingBegin => TriggerEvent::BlockingBegin { machine: id },
            MaybenotEventType::BlockingEnd => TriggerEvent::BlockingEnd,
            MaybenotEventType::TimerBegin => TriggerEvent::TimerBegin { machine: id },
            MaybenotEventType::TimerEnd => TriggerEvent::TimerEnd { machine: id },
        };
        assert!(e == want, "[C20.event]");
    }

    // ---- [C20.count] / [C20.null] maybenot_on_events on a real (machine-less) instance.
    // BOUNDED: zero machines, two consecutive batches of 0 or 1 event.  The instance is built from the crate's own
    // parts; with zero machines the generator is
    // never asked for a word, and it is an all-zero value here (seeding goes through cpuid inline assembly
    // and pthread_atfork, which Kani cannot execute).  Instant::now is a system call: stubbed with a fixed instant.
    fn stub_now() -> Instant {
        unsafe { core::mem::zeroed() }
    }

    #[kani::proof]
    #[kani::stub(std::time::Instant::now, stub_now)]
    #[kani::unwind(3)]
    pub(crate) fn k_ffi_on_events_empty() {
        // all fields of the generator are plain integers and integer arrays: the all-zero value is valid
        let rng: Rng = unsafe { core::mem::zeroed() };
        let Ok(framework) = Framework::new(Vec::<Machine>::new(), 0.0, 0.0, stub_now(), rng) else {
            panic!("[C20.start] no machines and fractions 0.0 must give an instance");
        };
        let mut f = MaybenotFramework { framework, events_buf: Vec::new() };
        let ev = MaybenotEvent { event_type: MaybenotEventType::NormalSent, machine: kani::any() };
        let mut act = MaybeUninit::<MaybenotAction>::uninit();
        let mut n: usize = kani::any();
        let num_events: usize = kani::any();
        kani::assume(num_events <= 1);
        let which: u8 = kani::any();
        let this: *mut MaybenotFramework = &mut f;
        let evp: *const MaybenotEvent = if which == 1 { core::ptr::null() } else { &ev };
        let actp: *mut MaybeUninit<MaybenotAction> = if which == 2 { core::ptr::null_mut() } else { &mut act };
        let np: *mut usize = if which == 3 { core::ptr::null_mut() } else { &mut n };
        let r = unsafe { maybenot_on_events(this, evp, num_events, actp, np) };
        if which >= 1 && which <= 3 {
            assert!(matches!(r, MaybenotResult::NullPointer), "[C20.null] a null event, action or count pointer is reported");
        } else {
            assert!(matches!(r, MaybenotResult::Ok), "[C20.count]");
            assert!(n == 0, "[C20.count] the count written equals the number of actions (none without machines)");
            assert!(n <= unsafe { maybenot_num_machines(this) }, "[C20.count]");
        }
        if which == 0 {
            // [C20.batch] a second batch on the same instance: the framework is handed exactly the events of THIS
            // batch, converted in order (nothing of an earlier batch is replayed)
            let ev2 = MaybenotEvent { event_type: MaybenotEventType::PaddingSent, machine: kani::any() };
            let n2: usize = kani::any();
            kani::assume(n2 <= 1);
            let r2 = unsafe { maybenot_on_events(this, &ev2, n2, actp, np) };
            assert!(matches!(r2, MaybenotResult::Ok) && n == 0, "[C20.count]");
            assert!(f.events_buf.len() == n2, "[C20.batch] the framework sees the events of this batch only");
            if n2 == 1 {
                assert!(matches!(f.events_buf[0], TriggerEvent::PaddingSent { machine } if machine.into_raw() == ev2.machine),
                        "[C20.batch] converted in order");
            }
        }
        kani::cover!(which == 0 && num_events == 0, "empty batch");
        kani::cover!(which == 0 && num_events == 1, "one event");
        std::mem::forget(f);
    }
}
