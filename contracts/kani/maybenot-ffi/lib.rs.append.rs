// ---------------------------------------------------------------------------------------------
// Appended by /verif (Kani unit K-FFI). cfg(kani) only.
#[cfg(kani)]
pub(crate) mod verif_proofs {
    use super::*;

    fn any_duration() -> Duration {
        let s: u64 = kani::any();
        let n: u32 = kani::any();
        kani::assume(n < 1_000_000_000);
        Duration::new(s, n)
    }

    fn dur_eq(d: Duration, m: MaybenotDuration) -> bool {
        m.secs == d.as_secs() && m.nanos == d.subsec_nanos()
    }

    /// [C20.action] field for field: kind, machine, flags, timer, seconds and nanoseconds
    #[kani::proof]
    pub(crate) fn k_ffi_convert_action() {
        let machine = MachineId::from_raw(kani::any());
        let timeout = any_duration();
        let duration = any_duration();
        let bypass: bool = kani::any();
        let replace: bool = kani::any();
        let timer = match kani::any::<u8>() {
            0 => maybenot::Timer::Action,
            1 => maybenot::Timer::Internal,
            _ => maybenot::Timer::All,
        };
        let a: maybenot::TriggerAction = match kani::any::<u8>() {
            0 => maybenot::TriggerAction::Cancel { machine, timer },
            1 => maybenot::TriggerAction::SendPadding { timeout, bypass, replace, machine },
            2 => maybenot::TriggerAction::BlockOutgoing { timeout, duration, bypass, replace, machine },
            _ => maybenot::TriggerAction::UpdateTimer { duration, replace, machine },
        };
        let c = convert_action(&a);
        let ok = match (&a, c) {
            (maybenot::TriggerAction::Cancel { machine, timer }, MaybenotAction::Cancel { machine: m2, timer: t2 }) => {
                m2 == machine.into_raw()
                    && matches!(
                        (timer, t2),
                        (maybenot::Timer::Action, MaybenotTimer::Action)
                            | (maybenot::Timer::Internal, MaybenotTimer::Internal)
                            | (maybenot::Timer::All, MaybenotTimer::All)
                    )
            }
            (
                maybenot::TriggerAction::SendPadding { timeout, bypass, replace, machine },
                MaybenotAction::SendPadding { machine: m2, timeout: t2, replace: r2, bypass: b2 },
            ) => m2 == machine.into_raw() && dur_eq(*timeout, t2) && r2 == *replace && b2 == *bypass,
            (
                maybenot::TriggerAction::BlockOutgoing { timeout, duration, bypass, replace, machine },
                MaybenotAction::BlockOutgoing { machine: m2, timeout: t2, replace: r2, bypass: b2, duration: d2 },
            ) => m2 == machine.into_raw() && dur_eq(*timeout, t2) && dur_eq(*duration, d2) && r2 == *replace && b2 == *bypass,
            (
                maybenot::TriggerAction::UpdateTimer { duration, replace, machine },
                MaybenotAction::UpdateTimer { machine: m2, duration: d2, replace: r2 },
            ) => m2 == machine.into_raw() && dur_eq(*duration, d2) && r2 == *replace,
            _ => false,
        };
        assert!(ok, "[C20.action]");
    }

    /// [C20.event] all 10 event types, any machine id
    #[kani::proof]
    pub(crate) fn k_ffi_convert_event() {
        let machine: usize = kani::any();
        let ty = match kani::any::<u8>() {
            0 => MaybenotEventType::NormalRecv,
            1 => MaybenotEventType::PaddingRecv,
            2 => MaybenotEventType::TunnelRecv,
            3 => MaybenotEventType::NormalSent,
            4 => MaybenotEventType::PaddingSent,
            5 => MaybenotEventType::TunnelSent,
            6 => MaybenotEventType::BlockingBegin,
            7 => MaybenotEventType::BlockingEnd,
            8 => MaybenotEventType::TimerBegin,
            _ => MaybenotEventType::TimerEnd,
        };
        let e = convert_event(MaybenotEvent { event_type: ty, machine });
        let id = MachineId::from_raw(machine);
        let want = match ty {
            MaybenotEventType::NormalRecv => TriggerEvent::NormalRecv,
            MaybenotEventType::PaddingRecv => TriggerEvent::PaddingRecv,
            MaybenotEventType::TunnelRecv => TriggerEvent::TunnelRecv,
            MaybenotEventType::NormalSent => TriggerEvent::NormalSent,
            MaybenotEventType::PaddingSent => TriggerEvent::PaddingSent { machine: id },
            MaybenotEventType::TunnelSent => TriggerEvent::TunnelSent,
            MaybenotEventType::BlockingBegin => TriggerEvent::BlockingBegin { machine: id },
            MaybenotEventType::BlockingEnd => TriggerEvent::BlockingEnd,
            MaybenotEventType::TimerBegin => TriggerEvent::TimerBegin { machine: id },
            MaybenotEventType::TimerEnd => TriggerEvent::TimerEnd { machine: id },
        };
        assert!(e == want, "[C20.event]");
    }
}
