// Appended by /verif (Kani unit K-SIM). cfg(kani) only: a BinDist value for harnesses in which the three
// Integration delay functions are stubbed (the bins are never read).
#[cfg(kani)]
impl BinDist {
    pub(crate) fn empty_for_verif() -> Self {
        BinDist { bins: Vec::new(), cumulative_probabilities: Vec::new() }
    }
}
