// ---------------------------------------------------------------------------------------------
// Appended by /verif (Kani unit K-SIM: the simulator's per-action rules). cfg(kani) only.
//
// Every harness runs the REAL function on a real SimState pair (std::time arithmetic bit-precise).
// BOUNDED: a side has no machines in its framework (the functions under test never touch it) and two
// timer slots.  Integration::{action,reporting,trigger}_delay are stubbed by "any delay below 2^32 us":
// the real ones call rand::thread_rng(), whose thread-local makes the Kani 0.68 compiler panic.
#[cfg(kani)]
pub(crate) mod verif_proofs {
    use super::*;
    use crate::integration::Integration;

    pub(crate) fn t0() -> Instant {
        // Instant has no public constructor besides now(); the all-zero value is a valid Timespec
        let base: Instant = unsafe { core::mem::zeroed() };
        base + Duration::from_secs(1_000_000)
    }
    pub(crate) fn any_dur() -> Duration {
        Duration::from_micros(kani::any::<u32>() as u64)
    }
    pub(crate) fn any_delay(_i: &Integration) -> Duration {
        any_dur()
    }
    fn side(integration: bool) -> SimState<Vec<Machine>, RngSource> {
        let rng = RngSource::Xoshiro(Xoshiro256StarStar::seed_from_u64(0));
        let Ok(framework) = Framework::new(Vec::<Machine>::new(), 0.0, 0.0, t0(), rng) else { panic!("new") };
        let integration = if integration {
            // the three delay functions are stubbed: the bins are never looked at
            Some(Integration {
                action_delay: crate::integration::BinDist::empty_for_verif(),
                reporting_delay: crate::integration::BinDist::empty_for_verif(),
                trigger_delay: crate::integration::BinDist::empty_for_verif(),
            })
        } else {
            None
        };
        SimState {
            framework,
            scheduled_action: vec![None, None],
            scheduled_internal_timer: vec![None, None],
            blocking_until: None,
            blocking_bypassable: false,
            integration,
        }
    }
    fn any_opt_instant() -> Option<Instant> {
        if kani::any() { Some(t0() + any_dur()) } else { None }
    }

    /// [C16.begin] [C16.expiry] [C16.bypass] a BlockOutgoing action that fires: BlockingBegin is reported for its
    /// machine and side; the side's blocking lasts until fire time + duration if the action says replace or that is
    /// later than the running expiry, otherwise the running expiry stays; the bypass property of the blocking is
    /// the action's flag exactly when the expiry was set by this action; the action fires once (its slot is cleared)
    #[kani::proof]
    #[kani::stub(Integration::action_delay, any_delay)]
    #[kani::stub(Integration::reporting_delay, any_delay)]
    #[kani::stub(Integration::trigger_delay, any_delay)]
    #[kani::unwind(6)]
    pub(crate) fn k_sim_block_fires() {
        let with_integration: bool = kani::any();
        let mut c = side(with_integration);
        let mut s = side(with_integration);
        let on_client: bool = kani::any();
        let slot: usize = if kani::any() { 0 } else { 1 };
        let fire = t0() + any_dur();
        let dur = any_dur();
        let (bypass, replace): (bool, bool) = (kani::any(), kani::any());
        let mid = MachineId::from_raw(slot);
        let act = TriggerAction::BlockOutgoing { timeout: any_dur(), duration: dur, bypass, replace, machine: mid };
        let prior_until = any_opt_instant();
        let prior_bypassable: bool = kani::any();
        // a sibling machine's blocking action may be due at the very same instant (seed C16-c): the lower slot fires
        // now, the sibling stays pending for the next step - it is neither lost nor executed in its place
        let sibling: bool = slot == 0 && kani::any::<bool>();
        let sib_act = TriggerAction::BlockOutgoing { timeout: Duration::from_secs(1), duration: Duration::from_secs(7),
            bypass: !bypass, replace: true, machine: MachineId::from_raw(1) };
        {
            let me = if on_client { &mut c } else { &mut s };
            me.scheduled_action[slot] = Some(ScheduledAction { action: act, time: fire });
            if sibling {
                me.scheduled_action[1] = Some(ScheduledAction { action: sib_act, time: fire });
            }
            me.blocking_until = prior_until;
            me.blocking_bypassable = prior_bypassable;
        }
        let other_until = any_opt_instant();
        let other_bypassable: bool = kani::any();
        {
            let other = if on_client { &mut s } else { &mut c };
            other.blocking_until = other_until;
            other.blocking_bypassable = other_bypassable;
        }
        let e = do_scheduled_action(&mut c, &mut s, fire);
        let Some(e) = e else { panic!("[C16.begin] a fired BlockOutgoing is reported") };
        let (me, other) = if on_client { (&c, &s) } else { (&s, &c) };
        // written from the statement
        let block = fire + dur;
        let sets = replace || match prior_until { Some(p) => block > p, None => block > fire };
        let want_until = if sets { Some(block) } else { prior_until };
        let want_bypassable = if sets { bypass } else { prior_bypassable };
        assert!(me.blocking_until == want_until, "[C16.expiry] replace, or the longer of the two expiries");
        assert!(me.blocking_bypassable == want_bypassable, "[C16.bypass]");
        assert!(other.blocking_until == other_until && other.blocking_bypassable == other_bypassable, "[C16.side] the other side's blocking is untouched");
        assert!(matches!(e.event, TriggerEvent::BlockingBegin { machine } if machine == mid), "[C16.begin]");
        assert!(e.client == on_client && !e.contains_padding, "[C16.begin]");
        assert!(e.time >= fire && e.time == fire + e.integration_delay, "[C16.begin] reported at the fire time plus the integration delays");
        assert!(with_integration || e.time == fire, "[C16.begin] without integration delays: exactly at the action's timeout");
        assert!(e.bypass == want_bypassable, "[C16.bypass] the event carries the blocking's bypass property");
        assert!(me.scheduled_action[slot].is_none(), "[C17.once] a fired action is removed");
        assert!(other.scheduled_action[0].is_none() && other.scheduled_action[1].is_none(), "[C17.once]");
        if sibling {
            assert!(matches!(&me.scheduled_action[1], Some(sa) if sa.time == fire
                && matches!(sa.action, TriggerAction::BlockOutgoing { machine, replace: true, .. } if machine == MachineId::from_raw(1))),
                "[C16.begin] a blocking action due at the same instant as a sibling's is not lost: it stays pending");
        } else {
            assert!(me.scheduled_action[1 - slot].is_none(), "[C17.once]");
        }
        kani::cover!(sibling, "simultaneous sibling");
        kani::cover!(sets && prior_until.is_some(), "extends");
        kani::cover!(!sets && prior_until.is_some(), "keeps");
        std::mem::forget(c);
        std::mem::forget(s);
    }

    /// [C17.fire] [C17.once] a SendPadding action that fires: PaddingSent for its machine and side exactly at the
    /// scheduled time, flags copied, and the slot is cleared; the neighbouring machine's pending action stays - also
    /// when it is due at the very same instant (it fires in the next step, it is not lost)
    #[kani::proof]
    #[kani::stub(Integration::action_delay, any_delay)]
    #[kani::stub(Integration::reporting_delay, any_delay)]
    #[kani::stub(Integration::trigger_delay, any_delay)]
    #[kani::unwind(6)]
    pub(crate) fn k_sim_padding_fires() {
        let with_integration: bool = kani::any();
        let mut c = side(with_integration);
        let mut s = side(with_integration);
        let on_client: bool = kani::any();
        let fire = t0() + any_dur();
        let times = [t0() + any_dur(), t0() + any_dur()];
        kani::assume(times[0] == fire || times[1] == fire);
        let flags = [(kani::any::<bool>(), kani::any::<bool>()), (kani::any::<bool>(), kani::any::<bool>())];
        let acts = [
            TriggerAction::SendPadding { timeout: any_dur(), bypass: flags[0].0, replace: flags[0].1, machine: MachineId::from_raw(0) },
            TriggerAction::SendPadding { timeout: any_dur(), bypass: flags[1].0, replace: flags[1].1, machine: MachineId::from_raw(1) },
        ];
        {
            let me = if on_client { &mut c } else { &mut s };
            me.scheduled_action[0] = Some(ScheduledAction { action: acts[0].clone(), time: times[0] });
            me.scheduled_action[1] = Some(ScheduledAction { action: acts[1].clone(), time: times[1] });
        }
        let e = do_scheduled_action(&mut c, &mut s, fire);
        let Some(e) = e else { panic!("[C17.fire] a due padding action is executed") };
        let me = if on_client { &c } else { &s };
        // exactly one of the due actions fires now (the one in the lower slot), the other one stays pending
        let f = if times[0] == fire { 0 } else { 1 };
        assert!(matches!(e.event, TriggerEvent::PaddingSent { machine } if machine == MachineId::from_raw(f)), "[C17.fire] caused by that machine's action");
        assert!(e.time == fire, "[C17.fire] exactly at issue time plus timeout (the scheduled time)");
        assert!(e.client == on_client && e.contains_padding && e.bypass == flags[f].0 && e.replace == flags[f].1, "[C17.fire]");
        assert!(me.scheduled_action[f].is_none(), "[C17.once] happens once");
        assert!(me.scheduled_action[1 - f] == Some(ScheduledAction { action: acts[1 - f].clone(), time: times[1 - f] }),
                "[C17.once] other pending actions stay (an action that is not superseded is not lost)");
        kani::cover!(times[0] == fire && times[1] == fire, "both due at once");
        std::mem::forget(c);
        std::mem::forget(s);
    }

    /// [C18.end] the internal timer that expires: TimerEnd for its machine and side exactly at the expiry, once
    /// (the slot is cleared); the neighbouring machine's timer stays - also when it expires at the very same instant
    #[kani::proof]
    #[kani::unwind(6)]
    pub(crate) fn k_sim_timer_ends() {
        let mut c = side(false);
        let mut s = side(false);
        let on_client: bool = kani::any();
        let expiry = t0() + any_dur();
        let timers = [any_opt_instant(), any_opt_instant()];
        kani::assume(timers[0] == Some(expiry) || timers[1] == Some(expiry));
        {
            let me = if on_client { &mut c } else { &mut s };
            me.scheduled_internal_timer[0] = timers[0];
            me.scheduled_internal_timer[1] = timers[1];
        }
        let e = do_internal_timer(&mut c, &mut s, expiry);
        let Some(e) = e else { panic!("[C18.end] an expiring timer is reported") };
        let me = if on_client { &c } else { &s };
        let f = if timers[0] == Some(expiry) { 0 } else { 1 };
        assert!(matches!(e.event, TriggerEvent::TimerEnd { machine } if machine == MachineId::from_raw(f)), "[C18.end]");
        assert!(e.time == expiry && e.client == on_client, "[C18.end] exactly at the timer's expiry");
        assert!(me.scheduled_internal_timer[f].is_none(), "[C18.once] exactly once");
        assert!(me.scheduled_internal_timer[1 - f] == timers[1 - f], "[C18.once] other timers stay");
        kani::cover!(timers[0] == Some(expiry) && timers[1] == Some(expiry), "both expire at once");
        std::mem::forget(c);
        std::mem::forget(s);
    }

    // instants are t0() + x whole seconds (from_micros would put 64-bit divisions by 10^6 into every query, which
    // CBMC's SAT back ends do not finish); the specifications are written over the offsets, so that the solver never
    // has to prove two copies of std's Timespec subtraction equal
    fn at(x: Option<u64>) -> Option<Instant> {
        x.map(|u| t0() + Duration::from_secs(u))
    }
    fn any_opt_us() -> Option<u64> {
        // offsets below 2^16 seconds: with 32-bit offsets the same proofs take 2-7 minutes each, with a large variance
        if kani::any() { Some(kani::any::<u16>() as u64) } else { None }
    }
    // written from the statement: time to the earliest of the given instants that is not in the past
    fn earliest(xs: &[Option<u64>], now: u64) -> Duration {
        let mut best: Option<u64> = None;
        let mut i = 0;
        while i < xs.len() {
            if let Some(x) = xs[i] {
                if x >= now && best.map_or(true, |b| x - now < b) {
                    best = Some(x - now);
                }
            }
            i += 1;
        }
        match best { Some(b) => Duration::from_secs(b), None => Duration::MAX }
    }

    /// [C17.due] the look-ahead returns the time to the EARLIEST pending action that is not in the past
    /// (Duration::MAX when there is none): no due action is skipped when simulated time advances to the next event.
    /// BOUNDED: two client slots and one server slot.
    #[kani::proof]
    #[kani::unwind(5)]
    pub(crate) fn k_sim_peek_action() {
        let n = kani::any::<u16>() as u64;
        let now = t0() + Duration::from_secs(n);
        let xs: [Option<u64>; 3] = [any_opt_us(), any_opt_us(), any_opt_us()];
        let sa = |t: Option<Instant>, m: usize| t.map(|time| ScheduledAction {
            action: TriggerAction::SendPadding { timeout: Duration::from_micros(0), bypass: false, replace: false, machine: MachineId::from_raw(m) },
            time,
        });
        let ac = vec![sa(at(xs[0]), 0), sa(at(xs[1]), 1)];
        let asv = vec![sa(at(xs[2]), 0)];
        assert!(queue_peek::peek_scheduled_action(&ac, &asv, now) == earliest(&xs, n), "[C17.due]");
        std::mem::forget(ac);
        std::mem::forget(asv);
    }

    /// [C18.due] the same for internal timers
    #[kani::proof]
    #[kani::unwind(5)]
    pub(crate) fn k_sim_peek_timer() {
        let n = kani::any::<u16>() as u64;
        let now = t0() + Duration::from_secs(n);
        let xs: [Option<u64>; 3] = [any_opt_us(), any_opt_us(), any_opt_us()];
        let ic = vec![at(xs[0]), at(xs[1])];
        let is = vec![at(xs[2])];
        assert!(queue_peek::peek_scheduled_internal_timer(&ic, &is, now) == earliest(&xs, n), "[C18.due]");
        std::mem::forget(ic);
        std::mem::forget(is);
    }

    /// [C16.due] the earlier of the two sides' blocking expiries, with its side (expiries are never in the past
    /// when peeked: pick_next clears them when they fire)
    #[kani::proof]
    #[kani::unwind(3)]
    pub(crate) fn k_sim_peek_blocked() {
        let n = kani::any::<u16>() as u64;
        let now = t0() + Duration::from_secs(n);
        let (xc, xs) = (any_opt_us(), any_opt_us());
        kani::assume(xc.map_or(true, |x| x >= n) && xs.map_or(true, |x| x >= n));
        let (d, is_client) = queue_peek::peek_blocked_exp(at(xc), at(xs), now);
        let want = match (xc, xs) {
            (Some(a), Some(b)) => if a < b { (Duration::from_secs(a - n), true) } else { (Duration::from_secs(b - n), false) },
            (Some(a), None) => (Duration::from_secs(a - n), true),
            (None, Some(b)) => (Duration::from_secs(b - n), false),
            (None, None) => (Duration::MAX, true),
        };
        assert!(d == want.0 && (d == Duration::MAX || is_client == want.1), "[C16.due] the earlier of the two sides' expiries");
    }

    /// quick-tier variants of the two look-ahead harnesses: one slot per side
    #[kani::proof]
    #[kani::unwind(4)]
    pub(crate) fn k_sim_peek_action_2() {
        let n = kani::any::<u16>() as u64;
        let now = t0() + Duration::from_secs(n);
        let xs: [Option<u64>; 2] = [any_opt_us(), any_opt_us()];
        let sa = |t: Option<Instant>, m: usize| t.map(|time| ScheduledAction {
            action: TriggerAction::SendPadding { timeout: Duration::from_micros(0), bypass: false, replace: false, machine: MachineId::from_raw(m) },
            time,
        });
        let ac = vec![sa(at(xs[0]), 0)];
        let asv = vec![sa(at(xs[1]), 0)];
        assert!(queue_peek::peek_scheduled_action(&ac, &asv, now) == earliest(&xs, n), "[C17.due]");
        std::mem::forget(ac);
        std::mem::forget(asv);
    }

    #[kani::proof]
    #[kani::unwind(4)]
    #[kani::solver(kissat)]
    pub(crate) fn k_sim_peek_timer_2() {
        let n = kani::any::<u16>() as u64;
        let now = t0() + Duration::from_secs(n);
        let xs: [Option<u64>; 2] = [any_opt_us(), any_opt_us()];
        let ic = vec![at(xs[0])];
        let is = vec![at(xs[1])];
        assert!(queue_peek::peek_scheduled_internal_timer(&ic, &is, now) == earliest(&xs, n), "[C18.due]");
        std::mem::forget(ic);
        std::mem::forget(is);
    }

    /// [C16.hold] the look-ahead over the event queue, one TunnelSent packet waiting on a side: while that side's
    /// blocking is active the packet cannot leave before the blocking expires - unless the blocking is bypassable AND
    /// the packet carries the bypass flag (padding whose action allowed bypass, or the normal packet it replaced),
    /// in which case, as without blocking, it leaves at its own time.  BOUNDED: one queued event, whole seconds.
    #[kani::proof]
    #[kani::unwind(6)]
    pub(crate) fn k_sim_queue_blocked() {
        let mut c = side(false);
        let mut s = side(false);
        let on_client: bool = kani::any();
        let n = kani::any::<u16>() as u64;
        let now = t0() + Duration::from_secs(n);
        let te = n + kani::any::<u16>() as u64;
        let pkt_bypass: bool = kani::any();
        let pkt_padding: bool = kani::any();
        let blocked: bool = kani::any();
        let until = n + kani::any::<u16>() as u64;
        let bypassable: bool = kani::any();
        {
            let me = if on_client { &mut c } else { &mut s };
            me.blocking_until = if blocked { Some(t0() + Duration::from_secs(until)) } else { None };
            me.blocking_bypassable = bypassable;
        }
        {
            // the other side's blocking is arbitrary and must not matter for this packet
            let other = if on_client { &mut s } else { &mut c };
            other.blocking_until = if kani::any() { Some(t0() + Duration::from_secs(n + kani::any::<u16>() as u64)) } else { None };
            other.blocking_bypassable = kani::any();
        }
        let mut sq = SimQueue::new();
        sq.push_sim(SimEvent {
            event: TriggerEvent::TunnelSent,
            time: t0() + Duration::from_secs(te),
            integration_delay: Duration::from_secs(0),
            client: on_client,
            contains_padding: pkt_padding,
            bypass: pkt_bypass,
            replace: false,
            debug_note: None,
        });
        let (d, _q, is_client) = queue_peek::peek_queue(&sq, &c, &s, Duration::from_secs(0), Duration::from_secs(0), Duration::MAX, now);
        // written from the statement
        let may_bypass = bypassable && pkt_bypass;
        let leaves_at = if blocked && !may_bypass && until > te { until } else { te };
        assert!(d == Duration::from_secs(leaves_at - n), "[C16.hold] nothing leaves a blocked side before the expiry unless bypass allows");
        assert!(is_client == on_client, "[C16.hold]");
        kani::cover!(blocked && !may_bypass && until > te, "held back");
        kani::cover!(blocked && may_bypass && until > te, "bypasses");
        std::mem::forget(c);
        std::mem::forget(s);
        std::mem::forget(sq);
    }

    /// [C15.stop] the stop condition "all normal packets were processed": EventQueue::no_normal_packets() may only answer
    /// true when NO normal packet is still queued on that side - neither a NormalSent of the base trace, nor a
    /// tunnel-sent normal packet (blocked, or bypassing after it replaced a padding), nor a tunnel-received one.
    /// BOUNDED: one queued event of any kind, side and flags (two make CBMC run out of memory in BinaryHeap's sift-up).
    #[kani::proof]
    #[kani::unwind(6)]
    pub(crate) fn k_sim_no_normal() {
        fn any_event() -> SimEvent {
            let m = MachineId::from_raw(0);
            let event = match kani::any::<u8>() % 8 {
                0 => TriggerEvent::NormalSent,
                1 => TriggerEvent::TunnelSent,
                2 => TriggerEvent::TunnelRecv,
                3 => TriggerEvent::NormalRecv,
                4 => TriggerEvent::PaddingSent { machine: m },
                5 => TriggerEvent::PaddingRecv,
                6 => TriggerEvent::BlockingBegin { machine: m },
                _ => TriggerEvent::TimerEnd { machine: m },
            };
            SimEvent {
                event,
                time: t0() + Duration::from_secs(kani::any::<u8>() as u64),
                integration_delay: Duration::from_secs(0),
                client: kani::any(),
                contains_padding: kani::any(),
                bypass: kani::any(),
                replace: kani::any(),
                debug_note: None,
            }
        }
        // written from the statement: a normal (non-padding) packet that is still on its way
        fn normal_in_flight(e: &SimEvent) -> bool {
            matches!(e.event, TriggerEvent::NormalSent)
                || (matches!(e.event, TriggerEvent::TunnelSent | TriggerEvent::TunnelRecv) && !e.contains_padding)
        }
        let e1 = any_event();
        let pending = normal_in_flight(&e1);
        // one side's queue, built from its parts (EventQueue::new() reserves 4 x 1024..4096 events, which CBMC chokes on)
        let mut sq = crate::queue_event::EventQueue {
            base: std::collections::BinaryHeap::new(),
            blocking: std::collections::BinaryHeap::new(),
            bypassable: std::collections::BinaryHeap::new(),
            internal: std::collections::BinaryHeap::new(),
        };
        sq.push(e1);
        let done = sq.no_normal_packets();
        assert!(!(done && pending), "[C15.stop] the run may not be declared finished while a normal packet is still queued");
        kani::cover!(done, "can finish");
        kani::cover!(pending && !done, "keeps going");
        std::mem::forget(sq);
    }
}
