#!/usr/bin/env python3
"""writes seeded/<x>/meta.json and seeded/README.md from seeded/<x>/{notes.md,result.txt}"""
import json, os, re, glob
ROOT = os.path.dirname(os.path.dirname(os.path.abspath(__file__)))
rows = []
for d in sorted(glob.glob(os.path.join(ROOT, "seeded", "*", ""))):
    sid = os.path.basename(d.rstrip("/"))
    pid = sid.split("-")[0]
    notes = open(os.path.join(d, "notes.md")).read() if os.path.exists(os.path.join(d, "notes.md")) else ""
    res = open(os.path.join(d, "result.txt")).read() if os.path.exists(os.path.join(d, "result.txt")) else ""
    suite = re.search(r"suite with patch: (.*)", res)
    d1 = re.search(r"demo with patch: (.*)", res)
    d2 = re.search(r"demo without patch: (.*)", res)
    checks = []
    for m in re.finditer(r"== (C\d\d) on .*?\n(.*?)   exit=(\d)", res, re.S):
        tags = sorted(set(re.findall(r"replays/(C\d\d-\w+)-", m.group(2))))
        replay = "no-failing-input-found" not in m.group(2) and "VIOLATION" in m.group(2)
        checks.append({"check": m.group(1), "exit": int(m.group(3)), "obligations": tags,
                       "native_replay_found": bool(re.search(r"VIOLATION[^\n]*json\n", m.group(2)))})
    detected = any(c["exit"] == 1 and c["check"] == pid for c in checks)
    first = [l.strip("-# ").strip() for l in notes.split("\n") if l.strip()][:4]
    meta = {"id": sid, "breaks_property": pid, "what_it_needs_to_manifest": " ".join(first)[:900],
            "written_by": "independent sub-agent given only the property text and a scratch worktree of /repo",
            "confirmed_by_me": {"cmd": "lib/seedconfirm.sh seeded/%s" % sid,
                                "existing_suite_with_patch": suite.group(1) if suite else None,
                                "demo_with_patch": d1.group(1) if d1 else None,
                                "demo_without_patch": d2.group(1) if d2 else None},
            "checks_run": {"cmd": "lib/seedtest.sh seeded/%s %s" % (sid, pid), "results": checks},
            "detected": detected}
    json.dump(meta, open(os.path.join(d, "meta.json"), "w"), indent=1)
    rows.append((sid, pid, detected, checks, first[0] if first else ""))
with open(os.path.join(ROOT, "seeded", "README.md"), "w") as f:
    f.write("# Seeded defects\n\nEach directory holds `patch.diff` (the change), `seed_demo.rs` (a public-API test that fails with the\n"
            "change and passes without it), `notes.md` (the author's description), `result.txt` (my confirmation run and the\n"
            "check run) and `meta.json`. The changes were written by sub-agents that saw only the property text and a scratch\n"
            "worktree; none is applied to /repo. Re-run everything with `lib/seedall.sh && python3 lib/seedmeta.py`.\n\n"
            "| seed | breaks | detected | failing obligations (check: exit) | what it is |\n|---|---|---|---|---|\n")
    for sid, pid, det, checks, what in rows:
        ob = "; ".join("%s: exit %d %s" % (c["check"], c["exit"], ",".join(c["obligations"])) for c in checks)
        f.write("| %s | %s | %s | %s | %s |\n" % (sid, pid, "yes" if det else "**no**", ob, what[:160].replace("|", "/")))
print("\n".join("%s %s %s" % (r[0], "DETECTED" if r[2] else "MISSED", [(c["check"], c["exit"]) for c in r[3]]) for r in rows))
