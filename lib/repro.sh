#!/bin/bash
# usage: lib/repro.sh <repro.rs> [git-rev]   - runs a public-API reproducer as an integration test of
# crates/maybenot in a scratch copy of /repo's working tree (or of the given revision).
set -e
R=$(readlink -f "$1"); REV="$2"
S=$(mktemp -d /var/tmp/verif-repro.XXXXXX)
trap 'rm -rf "$S"' EXIT
if [ -n "$REV" ]; then git -C /repo archive "$REV" | tar -x -C "$S"; else (cd /repo && tar --exclude=./target --exclude=./.git -cf - .) | tar -x -C "$S"; fi
find "$S" -name '*.rs' -exec touch {} +   # never let cargo reuse an artifact built from another copy
mkdir -p "$S/crates/maybenot/tests"; cp "$R" "$S/crates/maybenot/tests/verif_repro.rs"
cd "$S" && CARGO_TARGET_DIR=/verif/build/repro-target cargo test --offline -p maybenot --test verif_repro 2>&1 | tail -25
exit ${PIPESTATUS[0]}
