"""Which units decide which property.  A failed obligation is attributed to a property through the
[Cxx.name] tag on the failed clause; untagged safety obligations (overflow, bounds, unwrap,
termination) of the framework functions belong to C01 (totality)."""

VERUS_UNITS = {
    "vfw": {"name": "vfw", "template": "contracts/verus/fw.tmpl"},
    "vleaf": {"name": "vleaf", "template": "contracts/verus/fw.tmpl", "defines": ["LEAF"]},
}

# harness -> crate, default tag for untagged failed checks, tier, properties served, bounded?
KANI_HARNESSES = {
    "k_pad": {"crate": "maybenot", "default_tag": "C01.safety_leaf", "tier": "quick",
              "variants": ["framework::verif_proofs::k_pad", "framework::verif_proofs::k_pad_cvc5"],
              "props": ["C02", "C07"], "bounded": None, "cex": "framework::verif_proofs::k_pad_cex",
              "fn": "Framework::below_limit_padding", "file": "crates/maybenot/src/framework.rs"},
    "k_blk": {"crate": "maybenot", "default_tag": "C01.safety_leaf", "tier": "quick",
              "variants": ["framework::verif_proofs::k_blk", "framework::verif_proofs::k_blk_kissat"],
              "props": ["C03", "C07"], "bounded": None, "cex": "framework::verif_proofs::k_blk_cex",
              "fn": "Framework::below_limit_blocking", "file": "crates/maybenot/src/framework.rs"},
}

PROPS = {
    "C01": {"verus": ["vfw", "vleaf"], "kani": [], "untagged": True,
            "title": "Framework is total"},
    "C02": {"verus": ["vfw"], "kani": ["k_pad"], "title": "Padding budgets"},
    "C03": {"verus": ["vfw"], "kani": ["k_blk"], "title": "Blocking budgets"},
    "C04": {"verus": ["vfw"], "kani": [], "title": "Output contract"},
    "C07": {"verus": ["vfw", "vleaf"], "kani": ["k_pad", "k_blk"], "title": "Per-state limits"},
    "C08": {"verus": ["vfw"], "kani": [], "title": "Counters"},
    "C09": {"verus": ["vfw"], "kani": [], "title": "Signals"},
    "C10": {"verus": ["vfw"], "kani": [], "title": "Non-interference"},
}
