"""Which units decide which property.  A failed obligation is attributed to a property through the
[Cxx.name] tag on the failed clause; untagged safety obligations (overflow, bounds, unwrap,
termination) of the framework functions belong to C01 (totality)."""

VERUS_UNITS = {
    "vfw": {"name": "vfw", "template": "contracts/verus/fw.tmpl", "defines": ["VAL"]},
    "vleaf": {"name": "vleaf", "template": "contracts/verus/fw.tmpl", "defines": ["LEAF"]},
    "vsem": {"name": "vsem", "template": "contracts/verus/sem.tmpl", "defines": ["SEM"]},
    "vsim": {"name": "vsim", "template": "contracts/verus/sim.tmpl", "defines": []},
}

FW = "crates/maybenot/src/framework.rs"
ST = "crates/maybenot/src/state.rs"
DI = "crates/maybenot/src/dist.rs"
AC = "crates/maybenot/src/action.rs"
CO = "crates/maybenot/src/counter.rs"
MA = "crates/maybenot/src/machine.rs"
FFI = "crates/maybenot-ffi/src/lib.rs"
FFI2 = "crates/maybenot-ffi/src/ffi.rs"
SIM = "crates/maybenot-simulator/src/lib.rs"
SIMQ = "crates/maybenot-simulator/src/lib.rs"   # the harnesses of the queue_peek functions live in lib.rs


def H(crate, mod, name, fn, file, tier="quick", bounded=None, variants=None, cex=None, default_tag="C01.safety_leaf"):
    full = "%s::%s" % (mod, name) if mod else name
    d = {"crate": crate, "default_tag": default_tag, "tier": tier, "bounded": bounded, "fn": fn, "file": file,
         "variants": variants or [full]}
    if cex:
        d["cex"] = cex
    return d


FP = "framework::verif_proofs"
SP = "state::verif_proofs"
DP = "dist::verif_proofs"

KANI_HARNESSES = {
    "k_pad": H("maybenot", FP, "k_pad", "Framework::below_limit_padding", FW,
               variants=[FP + "::k_pad", FP + "::k_pad_cvc5"], cex=FP + "::k_pad_cex"),
    "k_blk": H("maybenot", FP, "k_blk", "Framework::below_limit_blocking", FW,
               variants=[FP + "::k_blk", FP + "::k_blk_kissat"], cex=FP + "::k_blk_cex"),
    "k_new_fracs": H("maybenot", FP, "k_new_fracs", "Framework::new (fraction test, zero machines)", FW,
                     default_tag="C12.new"),
    "k_event_index": H("maybenot", SP, "k_event_index", "Event::to_usize", "crates/maybenot/src/event.rs",
                       default_tag="C06.ev_idx"),
    "k_sample_1": H("maybenot", SP, "k_sample_1", "State::sample_state", ST, bounded="list length k = 1",
                    default_tag="C06.safety"),
    "k_sample_2": H("maybenot", SP, "k_sample_2", "State::sample_state", ST, bounded="list length k = 2",
                    default_tag="C06.safety"),
    "k_sample_3": H("maybenot", SP, "k_sample_3", "State::sample_state", ST,
                    bounded="list length k = 3", default_tag="C06.safety"),
    "k_sample_4": H("maybenot", SP, "k_sample_4", "State::sample_state", ST, tier="thorough",
                    bounded="list length k = 4", default_tag="C06.safety"),
    "k_state_new": H("maybenot", SP, "k_state_new", "State::new", ST,
                     bounded="the first or the last event with no or two declared transitions (any target, any f32 bit pattern)", default_tag="C06.safety"),
    "k_state_new_limits": H("maybenot", SP, "k_state_new_limits", "State::new", ST,
                            bounded="two concrete declared transitions (probability bit pattern 1, and 1.0)", default_tag="C06.safety"),
    "k_sample_none": H("maybenot", SP, "k_sample_none", "State::sample_state", ST, default_tag="C06.safety"),
    "k_valid_state_1": H("maybenot", SP, "k_valid_state_1", "State::validate", ST,
                         bounded="one event slot with 1 transition; targets from {0,1,5,STATE_END,STATE_SIGNAL}; probability and num_states fully symbolic",
                         default_tag="C12.safety"),
    "k_valid_state_2": H("maybenot", SP, "k_valid_state_2", "State::validate", ST, tier="thorough",
                         bounded="one event slot with 2 transitions; targets from a 5-element set", default_tag="C12.safety"),
    "k_valid_machine": H("maybenot", "machine::verif_proofs", "k_valid_machine", "Machine::validate", MA,
                         bounded=None, default_tag="C12.safety"),
    "k_dist_sample": H("maybenot", DP, "k_dist_sample", "Dist::sample", DI, default_tag="C13.safety",
                       cex=DP + "::k_dist_sample_cex"),
    "k_clamp_timeout": H("maybenot", "action::verif_proofs", "k_clamp_timeout", "Action::sample_timeout", AC,
                         default_tag="C13.safety"),
    "k_clamp_duration": H("maybenot", "action::verif_proofs", "k_clamp_duration", "Action::sample_duration", AC,
                          default_tag="C13.safety"),
    "k_clamp_limit": H("maybenot", "action::verif_proofs", "k_clamp_limit", "Action::sample_limit", AC,
                       default_tag="C13.safety"),
    "k_sample_fields": H("maybenot", "action::verif_proofs", "k_sample_fields", "Action::sample_timeout / sample_duration / sample_limit", AC,
                         default_tag="C04.safety"),
    "k_counter_value": H("maybenot", "counter::verif_proofs", "k_counter_value", "Counter::sample_value", CO,
                         default_tag="C13.safety"),
    "k_ffi_convert_action": H("maybenot-ffi", "verif_proofs", "k_ffi_convert_action", "convert_action", FFI,
                              default_tag="C20.safety"),
    "k_ffi_convert_event": H("maybenot-ffi", "verif_proofs", "k_ffi_convert_event", "convert_event", FFI,
                             default_tag="C20.safety"),
    "k_ffi_null_args": H("maybenot-ffi", "ffi::verif_proofs", "k_ffi_null_args",
                         "maybenot_on_events / maybenot_num_machines / maybenot_start (null arguments)", FFI2,
                         default_tag="C20.safety"),
    "k_sim_block_fires": H("maybenot-simulator", "verif_proofs", "k_sim_block_fires", "do_scheduled_action (BlockOutgoing)", SIM,
                           bounded="two timer slots per side, frameworks without machines; delays and durations < 2^32 us",
                           default_tag="C16.safety"),
    "k_sim_padding_fires": H("maybenot-simulator", "verif_proofs", "k_sim_padding_fires", "do_scheduled_action (SendPadding)", SIM,
                             bounded="two timer slots per side, frameworks without machines", default_tag="C17.safety"),
    "k_sim_timer_ends": H("maybenot-simulator", "verif_proofs", "k_sim_timer_ends", "do_internal_timer", SIM,
                          bounded="two timer slots per side, frameworks without machines", default_tag="C18.safety"),
    "k_sim_peek_blocked": H("maybenot-simulator", "verif_proofs", "k_sim_peek_blocked", "queue_peek::peek_blocked_exp", SIMQ,
                            bounded="whole-second offsets below 2^16", default_tag="C16.safety"),
    "k_sim_no_normal": H("maybenot-simulator", "verif_proofs", "k_sim_no_normal", "queue_event::EventQueue::no_normal_packets", SIMQ,
                         bounded="one queued event of any kind, side and flags", default_tag="C15.safety"),
    "k_sim_queue_blocked": H("maybenot-simulator", "verif_proofs", "k_sim_queue_blocked", "queue_peek::peek_queue", SIMQ,
                             bounded="one queued TunnelSent event, whole-second offsets below 2^16, no network delay", default_tag="C16.safety"),
    "k_sim_peek_action_2": H("maybenot-simulator", "verif_proofs", "k_sim_peek_action_2", "queue_peek::peek_scheduled_action", SIMQ,
                             bounded="one slot per side, whole-second offsets below 2^16", default_tag="C17.safety"),
    "k_sim_peek_timer_2": H("maybenot-simulator", "verif_proofs", "k_sim_peek_timer_2", "queue_peek::peek_scheduled_internal_timer", SIMQ,
                            bounded="one slot per side, whole-second offsets below 2^16", default_tag="C18.safety"),
    "k_sim_peek_action": H("maybenot-simulator", "verif_proofs", "k_sim_peek_action", "queue_peek::peek_scheduled_action", SIMQ, tier="quick",
                           bounded="two client slots and one server slot, whole-second offsets below 2^16", default_tag="C17.safety"),
    "k_sim_peek_timer": H("maybenot-simulator", "verif_proofs", "k_sim_peek_timer", "queue_peek::peek_scheduled_internal_timer", SIMQ, tier="thorough",
                          bounded="two client slots and one server slot, whole-second offsets below 2^16", default_tag="C18.safety"),
    "k_ffi_on_events_empty": H("maybenot-ffi", "verif_proofs", "k_ffi_on_events_empty", "maybenot_on_events (ffi.rs)", FFI,
                               bounded="an instance without machines (generator never used, all-zero value), two consecutive batches of 0 or 1 event, Instant::now stubbed",
                               default_tag="C20.safety"),
}
# not decidable with Kani 0.68 and therefore not claimed: geometric (constructor loop over the symbolic
# probability exceeds any small unwinding bound), gamma and beta (constructors reach inline asm)
# poisson: Poisson::new did not terminate under CBMC within 15 minutes
FAMILIES = ["uniform", "normal", "skewnormal", "lognormal", "binomial", "pareto", "weibull"]
for fam in FAMILIES:
    KANI_HARNESSES["k_valid_dist_" + fam] = H(
        "maybenot", DP, "k_valid_dist_" + fam, "Dist::validate (%s)" % fam, DI,
        tier="thorough" if fam in ("geometric",) else "quick",
        bounded="Geometric::new squaring loop unwound 70 times (unwinding assertion on)" if fam == "geometric" else None,
        default_tag="C12.safety")
VALID_DIST = ["k_valid_dist_" + f for f in FAMILIES]
STATE_PARTS = ["k_valid_state_a_only", "k_valid_state_b_only", "k_valid_state_a_with_b", "k_valid_state_b_with_a",
               "k_valid_state_action"]
for h in STATE_PARTS:
    KANI_HARNESSES[h] = H("maybenot", SP, h, "State::validate (action / counter distributions)", ST,
                          bounded="state without transitions; the symbolic distribution is a Uniform", default_tag="C12.safety")

TB_COMMON = [
    "time-trait axioms (Duration::ax_duration, Instant::t): every implementor of maybenot::time is assumed to satisfy them",
    "std semantics of Vec / slices / Option as specified by vstd; <[T]>::fill; AsRef::as_ref is pure",
    "derived Clone / PartialEq impls are structural (extraction rule R1)",
    "packet counters stay below 2^64 (>= 2^64 reported events needed to violate)",
    "accumulated blocked time representable in T::Duration (dur_headroom) - explicit hypothesis, see DESIGN F5",
    "CBMC's IEEE-754 model; Kani's models of std intrinsics",
    "iterator tail of trigger_events (iter().filter_map(as_ref)) dropped by rule R3: yields the Some entries of `actions` in index order",
]

PROPS = {
    "C01": {"verus": ["vfw", "vleaf"], "kani": ["k_new_fracs"] + STATE_PARTS, "untagged": True, "title": "Framework is total",
            "explanation": "Verus proves, generically in the machine container M, the RNG R and the clock T, that trigger_events / process_event / transition / update_counter / schedule_action / decrement_limit / below_action_limits and the bodies of below_limit_padding / below_limit_blocking never index out of bounds, never overflow an integer, never unwrap None; recursion and all loops terminate (decreases on the per-machine CounterZero guards); an event naming a non-existent machine touches no machine [C01.ids]; one machine step makes at most 1 + (guards consumed) <= 3 deliveries [C01.steps] and a whole call at most (events + 2) * (3 * machines + 3) [C01.work] (ghost delivery log, folded over the loops by lemmas). The invariant all of this rests on is established, not assumed: the body of Framework::new is verified to hand out an instance with wf(), every machine in state 0, empty slots, zero counters and accounting [C01.init]; State::validate / Machine::validate are verified to accept only machines whose targets are existing states or pseudo-states [C01.targets], and State::sample_state to return only declared targets (for lists of any length). Kani: Framework::new accepts exactly fractions in [0,1]; State::validate validates the distributions of the action and of both counters, so that validated machines cannot make a sampler panic [C01.valid]. Explicit hypotheses: packet counters < 2^64; dur_headroom (known finding F5)."},
    "C02": {"verus": ["vfw"], "kani": ["k_pad"], "title": "Padding budgets",
            "explanation": "K-PAD: Kani function contract on the real below_limit_padding, all u64 counters, all fractions in [0,1], bit-precise IEEE-754: true => state limit > 0 and (budget left or both fractions below, zero packets counting as below). V-FW: a slot that changes to SendPadding satisfies pad_budget_ok on the accounting of that moment [C02.prov]; machine steps never write the accounting and process_event counts NormalSent / PaddingSent (any id) before the machines run [C02.acct]; folded over the machine loops, the event loop and the signal rounds: after a call that reports ONE event every returned SendPadding slot satisfies pad_budget_ok on the final accounting [C02.single] - the statement of the property, as a postcondition of trigger_events."},
    "C03": {"verus": ["vfw"], "kani": ["k_blk"], "title": "Blocking budgets",
            "explanation": "K-BLK: Kani function contract on the real below_limit_blocking over a virtual clock (u64 microseconds) whose division is abstracted to an arbitrary function (Ackermann encoding), so the result holds for every clock with a deterministic div_duration_f64. V-FW (generic in T): accounting step of BlockingBegin / BlockingEnd with saturating time differences, repeated begins keep the first start [C03.acct]; provenance of BlockOutgoing slots [C03.prov]; postcondition of trigger_events for single-event calls [C03.single]."},
    "C04": {"verus": ["vfw"], "kani": ["k_clamp_timeout", "k_clamp_duration", "k_sample_fields"], "title": "Output contract",
            "explanation": "Slot invariant for every reachable framework state: slot i is None or an action naming machine i with kind / flags / timer of the action declared in some state of machine i and every duration <= 86 400 000 000 us [C04.slot][C04.shape]; every call starts from empty slots [C04.clear]; transition is the identity on ended machines and, folded over the loops of a call, a machine that had ended before the call stays ended and its slot is None at return [C04.end] (postcondition of trigger_events); the clamps of sample_timeout / sample_duration are proved by Kani for every f64 the distribution could return [C04.clamp]. 'At most one action per machine, distinct machines' is the slot invariant plus the dropped iterator tail (assumed)."},
    "C05": {"verus": ["vsem", "vfw"], "kani": [], "ambient_scan": True, "untagged": "C05.sem", "untagged_units": ["vsem"], "title": "Deterministic function matching the stated semantics",
            "explanation": "V-SEM: the real bodies of trigger_events, process_event, transition, update_counter, schedule_action, decrement_limit and below_action_limits are proved to satisfy `final.view() == sem_f(old.view(), args)` where view() is the whole instance as a mathematical value (runtimes, slots, RNG, clock, accounting, pending signal) and sem_trigger / sem_event / sem_all / sem_round / sem_transition / sem_update_counter / sem_schedule / sem_decrement are spec functions written from the documented operational semantics (events in order, machines in index order, LimitReached and CounterZero at once, one round of signals). Equality with a function is determinism: equal instances (e.g. an instance and its clone) fed equal inputs have equal views and return equal slots. Assumed: every leaf sampler is a function of its arguments and the RNG state, the two limit predicates and the clock arithmetic are functions of their arguments [C05.det] - justified by the mechanical ambient-authority scan [C05.ambient] (no static mut, thread_local, Cell/RefCell/Atomic, Instant::now, SystemTime, thread_rng, OsRng, unsafe in the non-test code of crates/maybenot/src). The starting point of every history is covered by V-FW's contract of Framework::new: every field of the instance handed out is given as a function of the arguments - configuration and clock origin unaltered, every machine in state 0 with zero counters and accounting, empty slots, nothing pending, and each machine's first limit sampled from ITS OWN state-0 action in index order from the generator handed in, the generator left as init_limits says [C05.init]."},
    "C06": {"verus": ["vfw"], "kani": ["k_event_index", "k_state_new", "k_state_new_limits", "k_sample_none", "k_sample_1", "k_sample_2", "k_sample_3", "k_sample_4"],
            "title": "Transition probabilities",
            "explanation": "V-FW (unbounded in the list length): the real body of State::sample_state returns pick(list, r, 0) where r is the single uniform draw and pick is written from the statement - thresholds are the running f32 sums p1, p1+p2, .. in list order, the first threshold above r wins, no threshold above r => no transition, no list for the event => None and no draw [C06.pick][C06.draw]; f32 < and + are uninterpreted functions of their operands there (rules R11, R12, R15). K-SAMPLE (bit-precise, BOUNDED in the list length: k = 1, 2, 3 quick; 4 thorough): sample_state executed through the real rand 0.8 gen_range(0.0..1.0) equals the cumulative-threshold specification for every 32-bit RNG word and every validated probability vector, a probability-1 transition is always taken, Event::to_usize is the discriminant; State::new stores exactly the declared pairs in the declared order (BOUNDED: one event, no or two pairs) [C06.stored]. The counting step from thresholds to shares (within 2^-23) is done on paper in DESIGN.md."},
    "C07": {"verus": ["vfw", "vleaf"], "kani": ["k_pad", "k_blk", "k_clamp_limit", "k_sample_fields"], "title": "Per-state limits",
            "explanation": "limit > 0 is a conjunct of every limited action's predicate (V-LEAF on the real bodies generic in T, K-PAD / K-BLK bit-precise) and scheduling is preceded by a true predicate [C07.pos]; a transition reports Unchanged exactly when the machine entered no state - also across CounterZero round trips (ghost epoch counter) [C07.epoch] - and then keeps state and limit [C07.once]; a completion consumes the limit only if the machine did not change state [C07.own] and only LimitReached deliveries for the machine the completion names occur [C07.own]; decrement_limit saturates at 0 and raises LimitReached exactly when the decremented limit is 0 and the state's action carries a limit, after withdrawing the slot [C07.reach]; sample_limit without a limit distribution is u64::MAX (Kani)."},
    "C08": {"verus": ["vfw"], "kani": ["k_counter_value"], "title": "Counters",
            "explanation": "update_counter's arithmetic equals counter_apply (saturating at 0 and u64::MAX, copy uses the other counter's pre-transition value, unit value 1) [C08.apply]; CounterZero is delivered exactly when a counter of this machine went non-zero -> zero and its per-machine guard was unset [C08.exact][C08.once]; nothing is scheduled or delivered before that [C08.prec]."},
    "C09": {"verus": ["vfw"], "kani": [], "title": "Signals",
            "explanation": "Signaller abstraction {none, one(x), many}: every machine step changes it only by sig_join written from the statement [C09.join]; no Signal is delivered while the events are processed [C09.once]; the delivery round, against round_post written from the statement: with one signaller x every other live machine receives exactly one Signal and x receives one iff some machine answered and x is live, with several signallers every live machine receives exactly one, never two Signals to one machine, none to ended machines [C09.round]; what was raised is consumed by the call [C09.consumed]. All as in-body obligations / postconditions over the ghost delivery log, generic in the number of machines."},
    "C10": {"verus": ["vfw"], "kani": [], "title": "Non-interference",
            "explanation": "Write frame: a step of machine i leaves every other machine's runtime, slot and state-change count untouched [C10.frame], writes no framework-level state other than rng and signal_pending (sanctioned) [C10.shared], delivers events only to machine i [C10.local]; every global event is delivered to every live machine whatever the other machines do [C10.observe] (postcondition of process_event). The relational solo-vs-combined lemma is not attempted; C05's functional semantics make the dependence of machine i's step on (its own runtime, its machine, shared accounting, rng) explicit."},
    "C12": {"verus": ["vfw"], "kani": ["k_valid_machine", "k_new_fracs"] + VALID_DIST + STATE_PARTS,
            "title": "Validation soundness",
            "explanation": "V-FW verifies the real bodies of State::validate, Machine::validate, Action::validate, Counter::validate, Machine::new and Framework::new against a well-formedness predicate written from the property text: Ok => every target an existing state or pseudo-state [C12.targets], no duplicate targets [C12.dups], every probability not NaN, not <= 0, not > 1 [C12.probs], the f32 running sum not > 1 [C12.sum], every distribution of the action and of both counters accepted by Dist::validate [C12.dists], fractions accepted by (0.0..=1.0).contains, 1..=STATE_MAX states [C12.machine]; for lists, states and machine sets of any size. Dist::validate's body is verified too: Ok => the parameters are accepted by the sampler's constructor, taken in the order Dist::dist_sample passes them, plus the explicit speed bounds, for all 11 families [C12.dist]; Machine::from_str is verified with the external decoders replaced by arbitrary-result stand-ins: whatever they return, an Ok(machine) has passed validate [C12.paths]. Floating point comparisons / additions are uninterpreted functions of their operands there (extraction rules R11-R14); what they mean arithmetically is Kani's part: accepted fractions are real numbers in [0,1] for every f64 [C12.fracs], Framework::new accepts exactly fractions in [0,1] [C12.new], accepted distributions have parameters the sampler's constructor accepts plus the explicit speed bounds for 7 of the 11 families [C12.dist], State::validate checks action and both counters in every shape of the counter pair [C12.parts]. Same judgement on every path: Machine::new is Ok exactly when Machine::validate accepts the assembled machine, Framework::new is Ok exactly when both fractions and every machine are accepted - so a framework built from accepted machines with fractions in [0,1] never fails [C12.same] (stated through the exact acceptance set, an auxiliary obligation [C12.aux_acc]: if the code's judgement changes in a way the property allows, the check reports undecided, not a violation). NOT decided: what rand_distr's constructors accept for poisson / geometric / gamma / beta (Kani cannot execute them; in V-FW they are uninterpreted)."},
    "C13": {"verus": ["vfw"], "kani": ["k_dist_sample", "k_clamp_timeout", "k_clamp_duration", "k_clamp_limit",
                                  "k_counter_value"] + VALID_DIST, "title": "Sampling in range",
            "explanation": "V-FW, on the real bodies of Dist::validate and Dist::dist_sample with rand_distr replaced by stand-ins whose constructors are functions of their arguments: an accepted distribution satisfies dist_valid [C13.valid], and under dist_valid every constructor unwrap in dist_sample succeeds and rand's gen_range precondition (low < high, finite width) holds - for all 11 families, argument order included [C13.nopanic] (floats as uninterpreted IEEE predicates with the comparison axioms listed in the trusted base); and only validated distributions are ever sampled: Framework::new's check of every machine is carried by the framework invariant (opaque fact cfg_valid about the never-changing machine list) to each of the four sampling calls in transition / update_counter / schedule_action, whose leaf contracts require action_valid / counter_valid [C13.validated]. Kani: Dist::sample with the underlying rand_distr sampler over-approximated by 'returns any f64': the result is not NaN, >= 0, <= max when max > 0, and finite, for all 11 families and all start/max including NaN and infinities; the consumers' conversions never panic and clamp to one day. NOT decided: that the rand_distr samplers return promptly (probabilistic termination) - an explicit assumption."},
    "C15": {"verus": ["vsim"], "kani": ["k_sim_no_normal"], "title": "Simulator packet conservation (per-event rules)",
            "explanation": "PARTIAL, function level. V-SIM verifies the real body of sim_network_stack (std::time, the event queue - modelled as the sequences of pushed and popped events with an uninterpreted head - and the network model replaced by stand-ins): a NormalSent event becomes exactly one tunnel-sent normal packet of that side [C15.sent]; every tunnel-sent packet causes exactly one tunnel-received packet of the same kind (normal / padding) on the OTHER side, a normal one never in the past [C15.deliver]; a tunnel-received packet is handed up as exactly one NormalRecv / PaddingRecv of the same kind and side [C15.recv]; padding adds one tunnel-sent padding packet unless it replaces a queued normal packet of its side, in which case NO packet is added - nothing is pushed, or the queued packet is popped and pushed back re-labelled with the bypass flag [C15.replace]; no other event adds, removes or duplicates a packet [C15.other]. K-SIM (real code, BOUNDED to one queued event): the stop condition no_normal_packets() answers true only when no normal packet - base-trace NormalSent, tunnel-sent (blocked or bypassing) or tunnel-received - is still queued [C15.stop]. V-SIM, postcondition of the real body of pick_next (partial correctness; queue, peek_queue and network model arbitrary): the event picked next is never earlier than the current time - simulated time only moves forward, the main loop's `BUG: next event moves time backwards` cannot fire [C15.forward]. NOT decided: that these steps compose to conservation and causality over a whole run (event loop, queue implementation, aggregate delays), the equality of counts with the input trace, and the final ordering (std sort)."},
    "C16": {"verus": ["vsim"], "kani": ["k_sim_block_fires", "k_sim_peek_blocked", "k_sim_queue_blocked"], "title": "Simulator blocking (per-action rules)",
            "explanation": "PARTIAL, function level. V-SIM verifies the real body of do_scheduled_action for any number of machines (std::time and the delay samplers as stand-ins): exactly the first due action (client before server, lowest machine first) is executed and removed, everything else stays, and for a BlockOutgoing action the reported BlockingBegin, the expiry rule and the bypass rule below hold [C16.begin][C16.expiry][C16.bypass]; the `BUG` assertion and panics of that function are unreachable given that only padding / blocking actions are ever pending, which trigger_update maintains [C17.kinds]. K-SIM (bit-precise, BOUNDED to two timer slots per side) runs the real do_scheduled_action on real SimState pairs with std::time arithmetic bit-precise: a BlockOutgoing action that fires is reported as BlockingBegin for its machine and side at the fire time (plus the integration's delays, stubbed as arbitrary) [C16.begin]; the side's blocking then lasts until fire time + duration if the action says replace or that is later than the running expiry, otherwise the running expiry stays [C16.expiry]; the blocking's bypass property becomes the action's flag exactly when this action set the expiry, and the event carries it [C16.bypass]; the other side is untouched [C16.side]; a sibling machine's blocking action due at the very same instant is neither lost nor executed in its place - it stays pending for the next step [C16.begin]; peek_blocked_exp returns the earlier of the two sides' expiries with its side [C16.due]; with one TunnelSent packet waiting on a side, peek_queue does not let it leave before that side's blocking expires unless the blocking is bypassable and the packet carries the bypass flag, whatever the other side's blocking is [C16.hold]. V-SIM also verifies the real bodies of peek_blocked_exp (the earlier of the two sides' expiries with its side, an expiry in the past counting as now [C16.due]) and of pick_next (partial correctness: the recursion is not shown to terminate; peek_queue, the queue and the network model are stand-ins): when the blocking expiry is picked, nothing else that is ahead is earlier, a side's blocking had an expiry, ONE BlockingEnd is built for that side at the expiry (the current time if it has passed) plus the reporting delay, and that side's blocking is switched off while the other side's stays - so the end is reported once [C16.end]; `None` is returned only when nothing is ahead. When a queued event is picked it never happens before the time the queue look-ahead computed for it - a held packet is moved forward to that time [C16.hold]. NOT decided: the rule 'nothing leaves a blocked side' with several queued packets / replaced padding (peek_queue and the real queues; whole-run behaviour of the event loop), termination of pick_next."},
    "C17": {"verus": ["vsim"], "kani": ["k_sim_padding_fires", "k_sim_block_fires", "k_sim_peek_action_2", "k_sim_peek_action"], "title": "Simulator action timers (per-function rules)",
            "explanation": "PARTIAL, function level. V-SIM verifies the real body of trigger_update (any number of machines; std::time, the event queue and the framework replaced by stand-ins, the framework's returned actions being any sequence naming distinct existing machines, which is what V-FW proves [C04.slot]): a returned SendPadding / BlockOutgoing action becomes that machine's pending action, due at the current time + its timeout (+ the integration's trigger delay), replacing whatever was pending [C17.schedule][C17.supersede]; Cancel of the action timer (or of all) clears it, Cancel of the internal timer and UpdateTimer leave it [C17.cancel]; machines without a returned action keep theirs [C17.frame]. V-SIM also verifies do_scheduled_action for any number of machines: exactly the first due action is executed and removed [C17.fire][C17.once]. K-SIM (real code, bit-precise, BOUNDED to two slots per side): a due SendPadding action is executed as PaddingSent for its machine and side exactly at its scheduled time with its flags, and removed - it happens once - while other pending actions stay [C17.fire][C17.once]; peek_scheduled_action returns the time to the earliest pending action not in the past [C17.due] (also verified by V-SIM for any number of slots, with time as integers). V-SIM verifies the real body of pick_next (partial correctness; peek_queue, queue and network model as stand-ins): the pending action that is executed is due exactly at current time + the look-ahead value, nothing else that is ahead (timer, blocking expiry, aggregate delay, queued event) is earlier, and such an action exists - so do_scheduled_action's precondition holds at its call site and its `BUG` assertion / panics cannot fire [C17.next]; pick_next never creates or alters a pending action: every slot keeps what it held or has been executed [C17.keep], and only padding / blocking actions stay pending [C17.kinds]. The trigger delay is named by a spec function of the side's integration field (the real sampler is random: what is stated is 'the integration's trigger delay'). NOT decided: termination of pick_next's recursion and the composition over a whole run (main loop of sim_advanced)."},
    "C18": {"verus": ["vsim"], "kani": ["k_sim_timer_ends", "k_sim_peek_timer_2", "k_sim_peek_timer"], "title": "Simulator internal timers (per-function rules)",
            "explanation": "PARTIAL, function level. V-SIM verifies the real body of trigger_update (any number of machines, stand-ins as for C17): an UpdateTimer action sets the machine's internal timer to the current time + duration exactly when it says replace, or no timer is running and the new expiry is later than now, or the new expiry is later than the running one; otherwise the timer stays [C18.rule]; Cancel of the internal timer (or of all) clears it [C18.cancel]; TimerBegin is pushed exactly for the UpdateTimer actions that set or changed the timer, at that same instant, for that machine and side, in order [C18.begin]; other machines' timers are untouched [C18.frame]. V-SIM also verifies do_internal_timer for any number of machines: exactly the first expiring timer (client before server) is reported as TimerEnd at its expiry and removed, its `BUG` assertion cannot fire when some timer expires at the target [C18.end][C18.once]. K-SIM (real code, bit-precise, BOUNDED to two slots per side): the expiring timer is reported as TimerEnd for its machine and side exactly at its expiry and removed, other timers stay [C18.end][C18.once]; peek_scheduled_internal_timer returns the time to the earliest timer not in the past [C18.due] (also verified by V-SIM for any number of slots, with time as integers). V-SIM verifies the real body of pick_next (partial correctness; stand-ins as for C17): the timer that is fired expires exactly at current time + the look-ahead value, nothing else that is ahead is earlier, and such a timer exists - so do_internal_timer's precondition holds at its call site and its `BUG` assertion cannot fire [C18.next]; pick_next never creates or alters an internal timer [C18.keep]. NOT decided: termination of pick_next's recursion and the composition over a whole run."},
    "C20": {"verus": [], "kani": ["k_ffi_convert_action", "k_ffi_convert_event", "k_ffi_null_args", "k_ffi_on_events_empty"], "title": "C API",
            "explanation": "convert_action is field-exact for every TriggerAction value (kind, machine, flags, timer, seconds, nanoseconds) and convert_event for all 10 event types and any id (loop-free, full domain); null `this`, null `out` are reported through NullPointer / 0 without dereference; on a real machine-less instance (BOUNDED: 0 machines, batches of 0 or 1 event) maybenot_on_events reports a null event / action / count pointer, returns Ok otherwise and writes the count 0 <= maybenot_num_machines. The zip with the output slice for instances with machines and start/stop ownership are std semantics, assumed."},
}
for p in PROPS.values():
    p.setdefault("trusted", TB_COMMON)
