#!/bin/bash
# usage: lib/seedall.sh [seed-id ...]  - confirms seeded defects and runs the checks of the property each one
# breaks (plus the properties named in seeded/<x>/also) against it; writes seeded/<x>/result.txt
cd /verif
if [ $# -gt 0 ]; then L="$@"; else L=$(ls -d seeded/*/ | xargs -n1 basename); fi
for s in $L; do
  d=seeded/$s; p=${s%%-*}
  extra=$(cat $d/also 2>/dev/null)
  { lib/seedconfirm.sh $d; lib/seedtest.sh $d $p $extra; } > $d/result.txt 2>&1
  echo "$s: $(grep -c '^VIOLATION' $d/result.txt) violation line(s), $(grep -E '^   exit=' $d/result.txt | tr '\n' ' ')"
done
