#!/bin/bash
# usage: lib/seedall.sh   - confirms every seeded defect and runs the checks of the property it breaks
# (plus the extra properties named in seeded/<x>/also) against it; writes seeded/<x>/result.txt
cd /verif
for d in seeded/*/; do
  s=$(basename $d); p=${s%%-*}
  extra=$(cat $d/also 2>/dev/null)
  { lib/seedconfirm.sh $d; lib/seedtest.sh $d $p $extra; } > $d/result.txt 2>&1
  echo "$s: $(grep -c '^VIOLATION' $d/result.txt) violation line(s), $(grep -E '^   exit=' $d/result.txt | tr '\n' ' ')"
done
