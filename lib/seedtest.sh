#!/bin/bash
# usage: lib/seedtest.sh <seed-dir> <property>...    e.g. lib/seedtest.sh seeded/C03-a C03 C07
# Applies seeded/<x>/patch.diff to a scratch copy of /repo's HEAD, runs the named checks against
# that copy (VERIF_REPO), and removes the copy.  /repo itself is never touched; evidence and replay
# files of these runs go to a scratch directory, not to /verif/evidence.
set -u
SD=$(readlink -f "$1"); shift
W=$(mktemp -d /var/tmp/verif-seed.XXXXXX)
trap 'rm -rf "$W"' EXIT
git -C /repo archive HEAD | tar -x -C "$W" || exit 2
(cd "$W" && patch -p1 -s < "$SD/patch.diff") || { echo "patch does not apply"; exit 2; }
for P in "$@"; do
  echo "== $P on $(basename $SD)"
  VERIF_REPO="$W" VERIF_OUT="$W/.verif-out" /verif/check "$P" quick 2>&1 | grep -E "^(VIOLATION|OK|UNDECIDED|KNOWN|  )" | cut -c1-220
  echo "   exit=${PIPESTATUS[0]}"
done
