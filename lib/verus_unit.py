"""Run one Verus unit: extract from /repo, verify, classify every diagnostic.

Outcome per obligation failure:
  semantic  - postcondition / precondition / invariant / assertion / overflow / decreases failure
              => candidate VIOLATION (attributed to properties through its [Cxx.name] tags)
  undecided - rlimit, timeouts, front-end rejections, lost anchors => exit 2, never an alarm
"""
import json
import os
import re
import subprocess
import sys
import time

HERE = os.path.dirname(os.path.abspath(__file__))
ROOT = os.path.dirname(HERE)
sys.path.insert(0, os.path.join(ROOT, "extract"))

SEMANTIC = [
    "postcondition not satisfied", "precondition not satisfied", "invariant not satisfied",
    "assertion failed", "possible arithmetic underflow/overflow", "possible division by zero",
    "decreases not satisfied", "could not prove termination", "recommendation not met",
    "possible bit shift underflow/overflow", "index out of bounds", "loop invariant not satisfied",
    "unable to prove assertion", "failed to prove", "cannot show invariant holds",
    "could not show termination", "decreases clause not satisfied", "precondition not met",
]
UNDECIDED = ["Resource limit (rlimit) exceeded", "rlimit", "timed out"]

TAG_RE = re.compile(r"\[((?:C\d\d|VAC)\.[A-Za-z0-9_]+)\]")


class Undecided(Exception):
    pass


def tags_near(lines, ln):
    """tags of the clause / assertion that starts on generated line ln (1-based): the tag comment sits on
    the last line of the clause, i.e. the first line (from ln on) on which all brackets opened since ln
    are closed again and whose code part ends in `,` or `;`."""
    k, depth = ln, 0
    while k - 1 < len(lines) and k < ln + 40:
        code = lines[k - 1].split("//")[0].rstrip()
        depth += sum(code.count(c) for c in "([{") - sum(code.count(c) for c in ")]}")
        if depth <= 0 and (code.endswith(",") or code.endswith(";")):
            return TAG_RE.findall(lines[k - 1])
        if depth < 0:
            return TAG_RE.findall(lines[k - 1])
        k += 1
    return TAG_RE.findall(lines[ln - 1]) if ln - 1 < len(lines) else []


def run(unit, repo, build_dir, timeout=900, rlimit=None, extra_args=None):
    """unit: dict(name, template).  Returns dict with failures, counts, times, report."""
    from extract import Extractor
    from rustscan import LostAnchor
    os.makedirs(build_dir, exist_ok=True)
    out_rs = os.path.join(build_dir, unit["name"] + ".rs")
    t0 = time.time()
    try:
        ex = Extractor(repo, os.path.join(ROOT, unit["template"]), unit.get("defines", ())).run()
    except LostAnchor as e:
        raise Undecided("lost anchor while extracting %s: %s" % (unit["name"], e))
    gen = ex.out.lines
    with open(out_rs, "w") as f:
        f.write("\n".join(gen) + "\n")
    origin = ex.out.origin
    report = ex.report
    t_extract = time.time() - t0

    cmd = ["verus", out_rs, "--output-json", "--time", "--multiple-errors", "5",
           "--error-format=json", "--num-threads", "16"]
    if rlimit:
        cmd += ["--rlimit", str(rlimit)]
    if extra_args:
        cmd += extra_args
    t1 = time.time()
    try:
        p = subprocess.run(cmd, capture_output=True, text=True, timeout=timeout, cwd=build_dir)
    except subprocess.TimeoutExpired:
        raise Undecided("verus timed out after %ds on %s" % (timeout, unit["name"]))
    t_verus = time.time() - t1
    try:
        summary = json.loads(p.stdout)
    except Exception:
        summary = None
    diags = []
    raw_err = []
    for l in p.stderr.split("\n"):
        ls = l.strip()
        if ls.startswith("{"):
            try:
                diags.append(json.loads(ls))
                continue
            except Exception:
                pass
        if ls:
            raw_err.append(l)
    failures, undecided = [], []
    for d in diags:
        if d.get("level") != "error":
            continue
        msg = d.get("message", "")
        if msg.startswith("aborting due to"):
            continue
        prim = [s for s in d.get("spans", []) if s.get("is_primary")]
        sec = [s for s in d.get("spans", []) if not s.get("is_primary")]
        kind = None
        for k in SEMANTIC:
            if k in msg:
                kind = k
        if any(u in msg for u in UNDECIDED):
            undecided.append({"message": msg, "line": prim[0]["line_start"] if prim else None,
                              "rendered": d.get("rendered", "")})
            continue
        if kind is None:
            undecided.append({"message": "front end / unsupported: " + msg,
                              "line": prim[0]["line_start"] if prim else None,
                              "rendered": d.get("rendered", "")})
            continue
        # which generated line states the failed clause, and where in the body it failed
        clause_ln, site_ln = None, None
        for s in d.get("spans", []):
            if os.path.basename(s.get("file_name", "")) != os.path.basename(out_rs):
                continue   # span inside vstd (e.g. the precondition of Vec::index): no clause of ours
            lab = (s.get("label") or "")
            if "failed this postcondition" in lab or "failed precondition" in lab or "failed this" in lab:
                clause_ln = s["line_start"]
            elif s.get("is_primary") and clause_ln is None and kind in (
                    "invariant not satisfied", "assertion failed", "decreases not satisfied"):
                clause_ln = s["line_start"]
        # site: for postconditions the non-primary span (exit); otherwise the primary span
        if "postcondition" in msg:
            site = sec[0] if sec else (prim[0] if prim else None)
        else:
            site = prim[0] if prim else None
        if site:
            site_ln = site["line_start"]
        tags = tags_near(gen, clause_ln) if clause_ln else []
        fn = fn_at(report, site_ln) or fn_at(report, clause_ln)
        if not tags and fn:
            dt = [f.get("default_tag") for f in report.get("functions", []) if f["fn"] == fn and f.get("default_tag")
                  and f.get("gen_lines") and f["gen_lines"][0] <= (site_ln or clause_ln or 0) <= f["gen_lines"][1]]
            if dt:
                tags = [dt[0]]
        src = None
        for probe in (site_ln, clause_ln):
            if probe and probe - 1 < len(origin) and origin[probe - 1]:
                src = "%s:%d" % tuple(origin[probe - 1])
                break
        failures.append({
            "kind": kind, "message": msg, "tags": tags, "function": fn,
            "clause_line": clause_ln, "clause_text": gen[clause_ln - 1].strip() if clause_ln else None,
            "site_line": site_ln, "site_text": gen[site_ln - 1].strip() if site_ln and site_ln - 1 < len(gen) else None,
            "repo_location": src, "rendered": d.get("rendered", ""),
        })
    vr = (summary or {}).get("verification-results", {})
    if summary is None or (not vr.get("success") and not failures and not undecided):
        undecided.append({"message": "verus produced no usable result (exit %s)" % p.returncode,
                          "line": None, "rendered": "\n".join(raw_err[-40:])})
    return {
        "unit": unit["name"], "generated": out_rs, "cmd": " ".join(cmd),
        "verified": vr.get("verified", 0), "errors": vr.get("errors", 0),
        "failures": failures, "undecided": undecided,
        "t_extract": t_extract, "t_verus": t_verus,
        "smt_ms": ((summary or {}).get("times-ms", {}).get("smt", {}) or {}).get("total"),
        "report": report, "gen_lines": gen,
        "verus_version": ((summary or {}).get("verus", {}) or {}).get("version"),
    }


def fn_at(report, gen_ln):
    if not gen_ln:
        return None
    for f in report.get("functions", []):
        g = f.get("gen_lines")
        if g and g[0] <= gen_ln <= g[1]:
            return f["fn"]
    return None


def scan_trusted(gen):
    """mechanical scan of the generated file for every assumption-introducing construct."""
    pats = [("external_body", r"#\[verifier::external_body\]"), ("assume_specification", r"\bassume_specification\b"),
            ("external_trait_specification", r"external_trait_specification"), ("admit", r"\badmit\(\)"),
            ("assume", r"\bassume\("), ("external", r"#\[verifier::external\]"),
            ("uninterp spec fn", r"\buninterp\s+spec\s+fn\b"),
            ("termination NOT proved (exec_allows_no_decreases_clause: partial correctness only)", r"exec_allows_no_decreases_clause"),
            ("loop_isolation(false)", r"loop_isolation\(false\)"),
            ("trait axiom (proof fn without body)", r"proof fn ax_\w+")]
    out = []
    for name, pat in pats:
        hits = [i + 1 for i, l in enumerate(gen) if re.search(pat, l.split("//")[0])]
        if hits:
            # name what follows
            what = []
            for h in hits:
                for k in range(h - 1, min(h + 4, len(gen))):
                    m = re.search(r"\bfn\s+(\w+)|\[\s*([^\]]+?)\s*\]\s*\(|trait\s+(\w+)", gen[k])
                    if m:
                        what.append(next(g for g in m.groups() if g))
                        break
            out.append("%s x%d: %s" % (name, len(hits), ", ".join(dict.fromkeys(what))))
    return out
