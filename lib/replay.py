"""./check <id> --replay <path>: re-run a recorded violation against /repo's current working tree.

kani records : the stored concrete-playback unit tests (byte vectors printed by Kani) are installed
               next to the harness in a fresh scratch copy and executed natively with
               `cargo kani playback` - the real function runs on the recorded input.
verus records: no input exists (Verus gives no counterexample); the unit is re-verified and the
               diagnostics of the recorded obligation are printed.
exit 0 = the recorded violation no longer reproduces, 1 = it still does, 2 = could not replay.
"""
import json
import os
import shutil
import sys

import kani_unit
import verus_unit
from props import KANI_HARNESSES, VERUS_UNITS


def run(pid, path, repo, root):
    try:
        rec = json.load(open(path))
    except Exception as e:
        print("cannot read replay file: %s" % e)
        return 2
    print("replay of obligation %s (%s, %s) recorded for %s" % (rec.get("obligation"), rec.get("back_end"),
                                                                 rec.get("unit"), rec.get("function")))
    work = os.path.join(os.environ.get("VERIF_SCRATCH", "/var/tmp"), "verif-replay-%d" % os.getpid())
    try:
        if rec.get("back_end") == "kani":
            tests = rec.get("playback_tests") or []
            if not tests:
                print("the record carries no concrete input (no-failing-input-found); verifier output was:")
                print(rec.get("verifier_output", ""))
                return 2
            H = KANI_HARNESSES[rec["unit"]]
            scratch = os.path.join(work, "repo")
            kani_unit.prepare_scratch(repo, scratch)
            kani_unit.install_playback_tests(scratch, H["file"], tests)
            cex = (rec.get("cex_harness") or H["variants"][0]).split("::")[-1]
            pb, out = kani_unit.run_playback(scratch, rec["crate"], cex,
                                             target_dir=os.path.join(root, "build", "kani-target"))
            tag = "[%s]" % rec["obligation"]
            hit = [p for p in pb["panics"] if tag in (p.get("msg") or "")]
            for t in pb["tests"]:
                print("  native test %s: %s" % (t["test"], "FAILED" if t["failed"] else "ok"))
            for p in pb["panics"]:
                print("  panic at %s: %s" % (p["at"], p["msg"]))
            if hit:
                print("REPRODUCED: the real code violates %s on the recorded input" % tag)
                return 1
            if not pb["tests"]:
                print(out[-3000:])
                return 2
            print("not reproduced on the current tree")
            return 0
        else:
            unit = VERUS_UNITS[rec["unit"]]
            r = verus_unit.run(unit, repo, os.path.join(work, "build"))
            same = [f for f in r["failures"] if rec["obligation"] in f["tags"] and f["function"] == rec["function"]]
            for f in same:
                print(f["rendered"])
            if same:
                print("STILL FAILS: obligation %s in %s (no-failing-input-found)" % (rec["obligation"], rec["function"]))
                return 1
            if r["undecided"]:
                print("undecided: %s" % r["undecided"][0]["message"])
                return 2
            print("obligation discharged on the current tree")
            return 0
    except (kani_unit.Undecided, verus_unit.Undecided) as e:
        print("undecided: %s" % e)
        return 2
    finally:
        shutil.rmtree(work, ignore_errors=True)
