"""Kani units: annotate a scratch copy of /repo (add-only), run harnesses, parse results, replay.

Scratch copy rules (DESIGN 2.2):
  (a) `#[cfg_attr(kani, kani::requires/ensures(..))]` lines inserted immediately above named fns
      (contracts/kani/<crate>/<file>.attrs)
  (b) `#[cfg(kani)] mod verif_proofs { .. }` appended to source files
      (contracts/kani/<crate>/<file>.append.rs)
  (c) `[lints] workspace = true` removed from the scratch Cargo.toml files
The function bodies Kani compiles are byte-identical to /repo: check_add_only() diffs the scratch
sources against /repo and fails (exit 2) unless every difference is an added line.
"""
import difflib
import json
import os
import re
import shutil
import signal
import subprocess
import time

HERE = os.path.dirname(os.path.abspath(__file__))
ROOT = os.path.dirname(HERE)
KDIR = os.path.join(ROOT, "contracts", "kani")
TAG_RE = re.compile(r"(C\d\d\.[A-Za-z0-9_]+)")


class Undecided(Exception):
    pass


def prepare_scratch(repo, scratch):
    if os.path.exists(scratch):
        shutil.rmtree(scratch)
    os.makedirs(scratch)
    subprocess.run("tar --exclude=./target --exclude=./.git -cf - . | (cd %s && tar xf -)" % scratch,
                   shell=True, cwd=repo, check=True)
    log = {"attrs": 0, "appended": [], "lints_removed": 0}
    # (c)
    for root, _, files in os.walk(scratch):
        for fn in files:
            if fn == "Cargo.toml":
                p = os.path.join(root, fn)
                s = open(p).read()
                s2 = re.sub(r"\n\[lints\]\nworkspace = true\n", "\n", s)
                if s2 != s:
                    open(p, "w").write(s2)
                    log["lints_removed"] += 1
    with open(os.path.join(scratch, ".cargo-config-dir-marker"), "w") as f:
        f.write("")
    os.makedirs(os.path.join(scratch, ".cargo"), exist_ok=True)
    with open(os.path.join(scratch, ".cargo", "config.toml"), "w") as f:
        f.write("[net]\noffline = true\n")
    # (a) + (b)
    for crate in sorted(os.listdir(KDIR)):
        cdir = os.path.join(KDIR, crate)
        if not os.path.isdir(cdir):
            continue
        for fn in sorted(os.listdir(cdir)):
            if fn.endswith(".attrs"):
                rel = os.path.join("crates", crate, "src", fn[:-len(".attrs")])
                log["attrs"] += apply_attrs(os.path.join(scratch, rel), os.path.join(cdir, fn))
        for fn in sorted(os.listdir(cdir)):
            if fn.endswith(".append.rs"):
                rel = os.path.join("crates", crate, "src", fn[:-len(".append.rs")])
                tgt = os.path.join(scratch, rel)
                if not os.path.exists(tgt):
                    raise Undecided("lost anchor: %s does not exist in /repo" % rel)
                with open(tgt, "a") as f:
                    f.write("\n" + open(os.path.join(cdir, fn)).read())
                log["appended"].append(rel)
    check_add_only(repo, scratch)
    # never let cargo reuse an artifact that was built from another scratch copy
    now = time.time()
    for root, _, files in os.walk(scratch):
        for fn in files:
            if fn.endswith(".rs") or fn == "Cargo.toml":
                os.utime(os.path.join(root, fn), (now, now))
    return log


def apply_attrs(target, attrs_file):
    if not os.path.exists(target):
        raise Undecided("lost anchor: %s missing" % target)
    lines = open(target).read().split("\n")
    blocks, cur = [], None
    for l in open(attrs_file).read().split("\n"):
        if l.startswith("@fn "):
            cur = {"regex": l[4:].strip(), "attrs": []}
            blocks.append(cur)
        elif l.strip() and not l.startswith("##") and cur is not None:
            cur["attrs"].append(l)
    n = 0
    for b in blocks:
        hits = [i for i, l in enumerate(lines) if re.search(b["regex"], l)]
        if len(hits) != 1:
            raise Undecided("lost anchor: %r matched %d lines in %s" % (b["regex"], len(hits), target))
        i = hits[0]
        ind = lines[i][:len(lines[i]) - len(lines[i].lstrip())]
        lines[i:i] = [ind + a.strip() for a in b["attrs"]]
        n += len(b["attrs"])
    open(target, "w").write("\n".join(lines))
    return n


def check_add_only(repo, scratch):
    for root, _, files in os.walk(os.path.join(scratch, "crates")):
        for fn in files:
            if not fn.endswith(".rs"):
                continue
            sp = os.path.join(root, fn)
            rp = os.path.join(repo, os.path.relpath(sp, scratch))
            if not os.path.exists(rp):
                raise Undecided("scratch file %s has no original" % sp)
            a = open(rp).read().split("\n")
            b = open(sp).read().split("\n")
            sm = difflib.SequenceMatcher(None, a, b, autojunk=False)
            for op, i1, i2, j1, j2 in sm.get_opcodes():
                if op in ("replace", "delete"):
                    # tolerate the trailing-newline artefact of appending
                    if all(x == "" for x in a[i1:i2]):
                        continue
                    raise Undecided("scratch copy is not add-only at %s:%d" % (rp, i1 + 1))


def kill_group(p):
    try:
        os.killpg(os.getpgid(p.pid), signal.SIGKILL)
    except Exception:
        pass


def run_cmd(cmd, cwd, timeout, env=None):
    e = dict(os.environ)
    e["CARGO_NET_OFFLINE"] = "true"
    if env:
        e.update(env)
    p = subprocess.Popen(cmd, cwd=cwd, stdout=subprocess.PIPE, stderr=subprocess.STDOUT, text=True,
                         env=e, start_new_session=True)
    try:
        out, _ = p.communicate(timeout=timeout)
        return p.returncode, out, False
    except subprocess.TimeoutExpired:
        kill_group(p)
        try:
            out, _ = p.communicate(timeout=10)
        except Exception:
            out = ""
        return -9, out, True


def parse_output(out):
    """returns {harness_fullname: {...}}"""
    res = {}
    thread_h = {}
    cur = None
    buf = {}
    for l in out.split("\n"):
        m = re.match(r"^(?:Thread (\d+): )?Checking harness ([\w:<>, ]+?)\.\.\.", l)
        if m:
            th = m.group(1) or "0"
            h = m.group(2)
            thread_h[th] = h
            res.setdefault(h, {"harness": h, "status": None, "failed": [], "checks": None, "nfailed": None,
                               "cover": None, "time_s": None, "raw": []})
            if m.group(1) is None:
                cur = h
            continue
        m = re.match(r"^Thread (\d+): \s*$", l)
        if m:
            cur = thread_h.get(m.group(1))
            continue
        if cur is None:
            continue
        r = res[cur]
        r["raw"].append(l)
        m = re.match(r"^ \*\* (\d+) of (\d+) failed", l)
        if m:
            r["nfailed"], r["checks"] = int(m.group(1)), int(m.group(2))
        m = re.match(r"^ \*\* (\d+) of (\d+) cover properties satisfied", l)
        if m:
            r["cover"] = [int(m.group(1)), int(m.group(2))]
        m = re.match(r"^Failed Checks: (.*)$", l)
        if m:
            r["failed"].append({"desc": m.group(1), "where": None})
            continue
        m = re.match(r"^ File: \"(.*?)\", line (\d+), in (.*)$", l)
        if m and r["failed"] and r["failed"][-1]["where"] is None:
            r["failed"][-1]["where"] = {"file": m.group(1), "line": int(m.group(2)), "fn": m.group(3)}
            continue
        if r["failed"] and r["failed"][-1]["where"] is None and l.strip() and not l.startswith("VERIFICATION"):
            # long descriptions (pretty-printed contract closures) continue over several lines
            r["failed"][-1]["desc"] += " " + l.strip()
            continue
        if l.startswith("CBMC failed with status") or l.startswith("CBMC crashed") or "CBMC timed out" in l:
            r["status"] = "ERROR"
            r["error"] = l.strip()
        m = re.match(r"^VERIFICATION:- (\w+)", l)
        if m and r["status"] != "ERROR":
            r["status"] = m.group(1)
        if m and r["status"] == "ERROR":
            cur = None
            continue
        m = re.match(r"^Verification Time: ([\d.]+)s", l)
        if m:
            r["time_s"] = float(m.group(1))
            cur = None
    return res


def run_harnesses(scratch, crate, groups, jobs=8, timeout=900, target_dir=None, playback=False,
                  extra=None):
    """groups: {name: [fully qualified harness names]} - the harnesses of one group are the same proof
    run with different solvers (portfolio); the first conclusive result (SUCCESSFUL or FAILED) decides
    the group, and the run is stopped as soon as every group is decided.
    Returns ({name: result}, raw_output, wall_s, cmd)."""
    cmd = ["cargo", "kani", "-p", crate, "-Z", "function-contracts", "-Z", "stubbing",
           "--output-format", "terse", "-j", str(jobs), "--exact"]
    if playback:
        cmd += ["-Z", "concrete-playback", "--concrete-playback=print"]
    allh = []
    for g, hs in groups.items():
        for h in hs:
            cmd += ["--harness", h]
            allh.append(h)
    if extra:
        cmd += extra
    e = dict(os.environ)
    e["CARGO_NET_OFFLINE"] = "true"
    if target_dir:
        e["CARGO_TARGET_DIR"] = target_dir
    t0 = time.time()
    logf = os.path.join(scratch, ".kani-run-%d.log" % os.getpid())
    with open(logf, "w") as lf:
        p = subprocess.Popen(cmd, cwd=scratch, stdout=lf, stderr=subprocess.STDOUT, text=True, env=e,
                             start_new_session=True)
    timed_out = False
    res = {}
    while True:
        rc = p.poll()
        out = open(logf).read()
        res = parse_output(out)
        decided = True
        for g, hs in groups.items():
            if not any(res.get(h, {}).get("status") in ("SUCCESSFUL", "FAILED") for h in hs):
                # still undecided: is any variant still able to answer?
                if not all(res.get(h, {}).get("status") in ("ERROR",) for h in hs):
                    decided = False
        if rc is not None:
            break
        if decided:
            kill_group(p)
            break
        if time.time() - t0 > timeout:
            timed_out = True
            kill_group(p)
            break
        time.sleep(1.0)
    try:
        p.wait(timeout=10)
    except Exception:
        pass
    out = open(logf).read()
    res = parse_output(out)
    wall = time.time() - t0
    # CBMC hands its formula to external SAT solvers through /tmp/external-sat*.cnf and leaves the file behind when
    # the run is stopped (portfolio decided, timeout): remove the ones written during this run
    # (only when no solver of a concurrently running check could still be about to read one)
    try:
        import glob
        busy = subprocess.run("pgrep -x cbmc || pgrep -x kissat || pgrep -x cadical", shell=True,
                              capture_output=True, text=True).stdout.strip()
        if not busy:
            for fcnf in glob.glob(os.path.join(os.environ.get("TMPDIR", "/tmp"), "external-sat*.cnf")):
                if os.path.getmtime(fcnf) >= t0 - 1:
                    os.remove(fcnf)
    except OSError:
        pass
    by_group = {}
    for g, hs in groups.items():
        best = None
        for h in hs:
            r = res.get(h)
            if r and r["status"] in ("SUCCESSFUL", "FAILED"):
                if best is None or (r["time_s"] or 1e9) < (best["time_s"] or 1e9):
                    best = r
        if best is None:
            st = "TIMEOUT" if timed_out else "NORESULT"
            errs = [res[h]["status"] for h in hs if h in res and res[h]["status"]]
            best = {"harness": hs[0], "status": st, "failed": [], "checks": None, "nfailed": None,
                    "cover": None, "time_s": None, "raw": [], "variants": errs}
        best["variant_status"] = {h: (res.get(h) or {}).get("status") for h in hs}
        by_group[g] = best
    return by_group, out, wall, " ".join(cmd)


def run_playback(scratch, crate, harness, timeout=600, target_dir=None):
    """runs the concrete-playback tests Kani wrote in place for `harness` natively against the real
    code.  Returns list of {test, failed, panic} and raw output."""
    env = {"RUST_BACKTRACE": "0"}
    if target_dir:
        env["CARGO_TARGET_DIR"] = target_dir
    cmd = ["cargo", "kani", "playback", "-Z", "concrete-playback", "-p", crate, "--",
           "kani_concrete_playback_%s_" % harness]
    rc, out, to = run_cmd(cmd, scratch, timeout, env)
    tests = []
    for m in re.finditer(r"^test (\S+) \.\.\. (\w+)", out, re.M):
        tests.append({"test": m.group(1), "failed": m.group(2) == "FAILED"})
    panics = re.findall(r"panicked at ([^\n]*):\n([^\n]*)", out)
    return {"tests": tests, "panics": [{"at": a, "msg": b} for a, b in panics], "timed_out": to,
            "cmd": " ".join(cmd)}, out


def parse_playback_tests(out):
    """the unit tests Kani prints with --concrete-playback=print (doc comments dropped: Kani copies
    multi-line check descriptions into them, which does not compile)."""
    tests = []
    for m in re.finditer(r"```\n(.*?)```", out, re.S):
        blk = m.group(1)
        if "#[test]" not in blk:
            continue
        body = blk[blk.index("#[test]"):]
        name = re.search(r"fn (kani_concrete_playback_\w+)\(", body)
        if name and name.group(1) not in [t["name"] for t in tests]:
            tests.append({"name": name.group(1), "source": body.rstrip() + "\n"})
    return tests


def install_playback_tests(scratch, file_rel, tests):
    """appends the tests in a sibling module of verif_proofs (scratch copy only)."""
    p = os.path.join(scratch, file_rel)
    with open(p, "a") as f:
        f.write("\n#[cfg(kani)]\nmod verif_playback {\n    #[allow(unused_imports)]\n    use super::verif_proofs::*;\n")
        for t in tests:
            f.write("\n".join("    " + l for l in t["source"].split("\n")) + "\n")
        f.write("}\n")


def tags_of(desc, default):
    t = TAG_RE.findall(desc)
    return t if t else [default]
