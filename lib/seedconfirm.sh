#!/bin/bash
# usage: lib/seedconfirm.sh <seed-dir>   - confirms a seeded defect independently of whoever wrote it:
#   (1) with the patch the whole existing test suite passes, (2) the demonstration fails with the
#   patch, (3) and passes without it.  Works on scratch copies of /repo's HEAD only.
set -u
SD=$(readlink -f "$1")
W=$(mktemp -d /var/tmp/verif-seedc.XXXXXX)
trap 'rm -rf "$W"' EXIT
export CARGO_TARGET_DIR=/verif/build/seed-target
git -C /repo archive HEAD | tar -x -C "$W" || exit 2
DEMO_DST=$(head -3 "$SD/seed_demo.rs" | grep -o 'crates/[A-Za-z0-9_/.-]*\.rs' | head -1)
[ -z "$DEMO_DST" ] && DEMO_DST=$(grep -o 'crates/[A-Za-z0-9_-]*/tests/seed_demo\.rs' "$SD/notes.md" 2>/dev/null | head -1)
[ -z "$DEMO_DST" ] && grep -q 'maybenot_simulator' "$SD/seed_demo.rs" && DEMO_DST=crates/maybenot-simulator/tests/seed_demo.rs
[ -z "$DEMO_DST" ] && DEMO_DST=crates/maybenot/tests/seed_demo.rs
PKG=$(echo "$DEMO_DST" | cut -d/ -f2)
TESTNAME=$(basename "$DEMO_DST" .rs)
cd "$W"
patch -p1 -s < "$SD/patch.diff" || { echo "patch does not apply"; exit 2; }
find . -name '*.rs' -exec touch {} +
S=$(cargo test --workspace --offline 2>&1 | grep -E "^test result" | awk '{p+=$4; f+=$6} END {print p" passed "f" failed"}')
echo "suite with patch: $S"
mkdir -p "$(dirname $DEMO_DST)"; cp "$SD/seed_demo.rs" "$DEMO_DST"
D1=$(cargo test --offline -p $PKG --test $TESTNAME 2>&1 | grep -E "^test result" | head -1)
echo "demo with patch: $D1"
patch -p1 -R -s < "$SD/patch.diff"
find . -name '*.rs' -exec touch {} +
D2=$(cargo test --offline -p $PKG --test $TESTNAME 2>&1 | grep -E "^test result" | head -1)
echo "demo without patch: $D2"
