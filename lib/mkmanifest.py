#!/usr/bin/env python3
"""Keeps MANIFEST.json's free-text fields in step with lib/props.py (level text = the property's explanation)."""
import json, os, sys
ROOT = os.path.dirname(os.path.dirname(os.path.abspath(__file__)))
sys.path.insert(0, os.path.join(ROOT, "lib"))
from props import PROPS

NOTES = {
    "C01": "Explicit hypotheses: packet counters < 2^64; accumulated blocked time representable (known finding F5 is exactly the failure of this hypothesis under a backwards clock). The iterator tail of trigger_events is dropped by extraction rule R3 (assumed std semantics).",
    "C06": "V-FW part unbounded in the list length with f32 comparison/addition as uninterpreted functions of their operands; bit-precise K-SAMPLE part BOUNDED in list length k (1, 2, 3 quick; 4 thorough), complete in the RNG word, probabilities and targets; the step from thresholds to shares is on paper.",
    "C12": "Floats in the Verus part are uninterpreted IEEE predicates (their arithmetic meaning is decided by Kani for fractions and 7 of 11 distribution families); the decoders of from_str and rand_distr's constructors are over-approximated by stand-ins (arbitrary results / functions of their arguments); the exact acceptance set used for [C12.same] is an auxiliary obligation (undecided, not violated, if the code's judgement changes compatibly).",
    "C13": "Prompt return of rand_distr samplers (probabilistic termination) is an assumption; that only distributions of validated machines reach Dist::sample is by inspection; range and panic-freedom of maybenot's own code are proved.",
    "C20": "maybenot_on_events on an instance: BOUNDED (no machines, two batches of 0 or 1 event, all-zero generator value, Instant::now stubbed); count <= num_machines with machines and start/stop ownership rely on std semantics (zip, Box) - assumed.",
}
NOTES.update({
    "C15": "PARTIAL: the per-event rules of sim_network_stack by Verus with stand-ins for std::time, the queue and the network model (no overflow of Instant arithmetic assumed; pop_blocking assumed to remove the event peek_blocking shows); whole-run conservation / causality and the final sort are not decided.",
    "C16": "PARTIAL: per-action rules of do_scheduled_action, peek_blocked_exp and the BlockingEnd branch of pick_next by Verus for any number of machines (std::time, queue, network model, peek_queue as stand-ins; pick_next partial correctness only - its recursion is not shown to terminate); the bit-precise Kani harnesses are BOUNDED to two timer slots per side; 'nothing leaves a blocked side' with several queued packets needs peek_queue and the event loop and is not decided.",
    "C17": "PARTIAL: trigger_update, do_scheduled_action, peek_scheduled_action and pick_next by Verus for any number of machines (std::time / queue / framework / peek_queue stand-ins, no overflow of Instant arithmetic assumed, every Duration in [0, Duration::MAX] assumed, the trigger delay modelled as a function of the side's integration; pick_next partial correctness only); the bit-precise Kani harnesses are BOUNDED to two slots per side; composition over the main loop of sim_advanced is not decided.",
    "C18": "PARTIAL: as C17, for the internal timer: the UpdateTimer rule, cancellation, TimerBegin, TimerEnd, look-ahead and the timer branch of pick_next by Verus for any number of machines (pick_next partial correctness only); bit-precise Kani harnesses BOUNDED to two slots per side; composition over the main loop not decided.",
})
p = os.path.join(ROOT, "MANIFEST.json")
m = json.load(open(p))
have = {c["property_id"] for c in m["checks"]}
for pid in sorted(PROPS):
    if pid not in have:
        m["checks"].append({
            "property_id": pid, "quick_cmd": "./check %s quick" % pid, "thorough_cmd": "./check %s thorough" % pid,
            "evidence_file": "/verif/evidence/%s.json" % pid, "replay_cmd_template": "./check %s --replay {path}" % pid,
            "engine": "+".join(e for e in ("verus" if PROPS[pid].get("verus") else "", "kani" if PROPS[pid].get("kani") else "") if e),
            "level_claimed": {"category": "proof", "text": "", "design_ref": "DESIGN.md sections 0, 4"},
            "level_note": ""})
m["checks"].sort(key=lambda c: c["property_id"])
m["not_applicable"] = [x for x in m.get("not_applicable", []) if x["property_id"] not in PROPS]
for c in m["checks"]:
    pid = c["property_id"]
    c["level_claimed"]["text"] = PROPS[pid]["explanation"]
    if pid in NOTES:
        c["level_note"] = NOTES[pid]
for e in m.get("engines", []):
    if e["name"] == "verus-units":
        e["serves_properties"] = sorted(k for k, v in PROPS.items() if v.get("verus"))
    if e["name"] == "kani-units":
        e["serves_properties"] = sorted(k for k, v in PROPS.items() if v.get("kani"))
json.dump(m, open(p, "w"), indent=1)
try:
    import jsonschema
    jsonschema.validate(m, json.load(open("/root/.vp/MANIFEST.schema.json")))
    print("MANIFEST.json valid, %d checks" % len(m["checks"]))
except ImportError:
    print("written (jsonschema not available)")
