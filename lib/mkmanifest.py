#!/usr/bin/env python3
"""Keeps MANIFEST.json's free-text fields in step with lib/props.py (level text = the property's explanation)."""
import json, os, sys
ROOT = os.path.dirname(os.path.dirname(os.path.abspath(__file__)))
sys.path.insert(0, os.path.join(ROOT, "lib"))
from props import PROPS

NOTES = {
    "C01": "Explicit hypotheses: packet counters < 2^64; accumulated blocked time representable (known finding F5 is exactly the failure of this hypothesis under a backwards clock). The iterator tail of trigger_events is dropped by extraction rule R3 (assumed std semantics).",
    "C06": "V-FW part unbounded in the list length with f32 comparison/addition as uninterpreted functions of their operands; bit-precise K-SAMPLE part BOUNDED in list length k (1, 2, 3 quick; 4 thorough), complete in the RNG word, probabilities and targets; the step from thresholds to shares is on paper.",
    "C12": "Floats in the Verus part are uninterpreted IEEE predicates (their arithmetic meaning is decided by Kani for fractions and 7 of 11 distribution families); the decoders of from_str and rand_distr's constructors are over-approximated by stand-ins (arbitrary results / functions of their arguments); the exact acceptance set used for [C12.same] is an auxiliary obligation (undecided, not violated, if the code's judgement changes compatibly).",
    "C13": "Prompt return of rand_distr samplers (probabilistic termination) is an assumption; that only distributions of validated machines reach Dist::sample is by inspection; range and panic-freedom of maybenot's own code are proved.",
    "C20": "maybenot_on_events on an instance: BOUNDED (no machines, two batches of 0 or 1 event, all-zero generator value, Instant::now stubbed); count <= num_machines with machines and start/stop ownership rely on std semantics (zip, Box) - assumed.",
}
p = os.path.join(ROOT, "MANIFEST.json")
m = json.load(open(p))
for c in m["checks"]:
    pid = c["property_id"]
    c["level_claimed"]["text"] = PROPS[pid]["explanation"]
    if pid in NOTES:
        c["level_note"] = NOTES[pid]
for e in m.get("engines", []):
    if e["name"] == "verus-units":
        e["serves_properties"] = sorted(k for k, v in PROPS.items() if v.get("verus"))
    if e["name"] == "kani-units":
        e["serves_properties"] = sorted(k for k, v in PROPS.items() if v.get("kani"))
json.dump(m, open(p, "w"), indent=1)
try:
    import jsonschema
    jsonschema.validate(m, json.load(open("/root/.vp/MANIFEST.schema.json")))
    print("MANIFEST.json valid, %d checks" % len(m["checks"]))
except ImportError:
    print("written (jsonschema not available)")
