// F5 (C01), KNOWN FINDING, not repaired: with a clock that runs backwards the accumulated blocked
// time overflows std::time::Duration and `+=` panics ("overflow when adding durations").
// This test documents the defect: it PASSES while the defect is present (it expects the panic).
use maybenot::{Framework, Machine, MachineId, TriggerEvent};
use rand::rngs::mock::StepRng;
use std::time::{Duration, Instant};

#[test]
fn c01_backwards_clock_overflows_blocked_time() {
    let r = std::panic::catch_unwind(|| {
        let m: Vec<Machine> = vec![];
        let t0 = Instant::now();
        let far = t0 + Duration::from_secs(1 << 62);
        let mut f = Framework::new(&m, 0.0, 0.0, t0, StepRng::new(0, 1)).unwrap();
        for _ in 0..4 {
            let _ = f.trigger_events(&[TriggerEvent::BlockingBegin { machine: MachineId::from_raw(0) }], t0).count();
            let _ = f.trigger_events(&[TriggerEvent::BlockingEnd], far).count();
        }
    });
    assert!(r.is_err(), "the framework no longer panics on this history: remove the known finding");
}
