// F3 (C09): a lone machine that transitions to STATE_SIGNAL twice in one call was treated as two
// signallers and received its own Signal.  Public API only.
use enum_map::enum_map;
use maybenot::action::Action;
use maybenot::constants::STATE_SIGNAL;
use maybenot::dist::{Dist, DistType};
use maybenot::event::Event;
use maybenot::state::{State, Trans};
use maybenot::{Framework, Machine, TriggerEvent};
use rand::rngs::mock::StepRng;
use std::time::Instant;

fn c(v: f64) -> Dist {
    Dist::new(DistType::Uniform { low: v, high: v }, 0.0, 0.0)
}

fn signaller() -> Machine {
    // state 0: signal on every NormalRecv; a received Signal moves to state 1, which pads
    let s0 = State::new(enum_map! {
        Event::NormalRecv => vec![Trans(STATE_SIGNAL, 1.0)],
        Event::Signal => vec![Trans(1, 1.0)],
        _ => vec![] });
    let mut s1 = State::new(enum_map! { _ => vec![] });
    s1.action = Some(Action::SendPadding { bypass: false, replace: false, timeout: c(1.0), limit: None });
    Machine::new(1000, 0.0, 0, 0.0, vec![s0, s1]).unwrap()
}

#[test]
fn c09_lone_signaller_never_receives_its_own_signal() {
    let m = vec![signaller()];
    let mut f = Framework::new(&m, 0.0, 0.0, Instant::now(), StepRng::new(0, 1)).unwrap();
    let n = f.trigger_events(&[TriggerEvent::NormalRecv, TriggerEvent::NormalRecv], Instant::now()).count();
    assert_eq!(n, 0, "the only machine signalled twice and then acted on its own signal");
}

#[test]
fn c09_single_signal_control() {
    let m = vec![signaller()];
    let mut f = Framework::new(&m, 0.0, 0.0, Instant::now(), StepRng::new(0, 1)).unwrap();
    let n = f.trigger_events(&[TriggerEvent::NormalRecv], Instant::now()).count();
    assert_eq!(n, 0);
}
