// F6 (C13): Dist::sample could return +inf although the documented range is [0.0, f64::MAX] and the
// property asks for a real number.
use maybenot::dist::{Dist, DistType};
use rand::rngs::mock::StepRng;

#[test]
fn c13_sample_is_a_real_number() {
    let mut rng = StepRng::new(0, 1);
    let d = Dist::new(DistType::Uniform { low: 0.0, high: 0.0 }, f64::INFINITY, 0.0);
    assert!(d.validate().is_ok());
    assert!(d.sample(&mut rng).is_finite(), "start = +inf gives an infinite sample");
    let d = Dist::new(DistType::LogNormal { mu: 1000.0, sigma: 0.0 }, 0.0, 0.0);
    assert!(d.validate().is_ok());
    assert!(d.sample(&mut rng).is_finite(), "exp(1000) overflows to an infinite sample");
    let d = Dist::new(DistType::Uniform { low: 1.0, high: 1.0 }, 0.0, f64::INFINITY);
    assert!(d.sample(&mut rng) == 1.0);
}
