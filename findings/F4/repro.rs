// F4 (C08, C10): the once-per-call CounterZero guard was shared by all machines, so a machine's
// counter reaching zero was not reported when a neighbour's counter had reached zero earlier in
// the same call.  Public API only.
use enum_map::enum_map;
use maybenot::action::Action;
use maybenot::counter::{Counter, Operation};
use maybenot::dist::{Dist, DistType};
use maybenot::event::Event;
use maybenot::state::{State, Trans};
use maybenot::{Framework, Machine, TriggerEvent};
use rand::rngs::mock::StepRng;
use std::time::Instant;

fn c(v: f64) -> Dist {
    Dist::new(DistType::Uniform { low: v, high: v }, 0.0, 0.0)
}

fn counting() -> Machine {
    // 0 --NormalRecv--> 1 (A += 1) --NormalRecv--> 2 (A -= 1, reaches 0) --CounterZero--> 3 (pad)
    let s0 = State::new(enum_map! { Event::NormalRecv => vec![Trans(1, 1.0)], _ => vec![] });
    let mut s1 = State::new(enum_map! { Event::NormalRecv => vec![Trans(2, 1.0)], _ => vec![] });
    s1.counter = (Some(Counter::new(Operation::Increment)), None);
    let mut s2 = State::new(enum_map! { Event::CounterZero => vec![Trans(3, 1.0)], _ => vec![] });
    s2.counter = (Some(Counter::new(Operation::Decrement)), None);
    let mut s3 = State::new(enum_map! { _ => vec![] });
    s3.action = Some(Action::SendPadding { bypass: false, replace: false, timeout: c(1.0), limit: None });
    Machine::new(1000, 0.0, 0, 0.0, vec![s0, s1, s2, s3]).unwrap()
}

fn run(n_machines: usize) -> usize {
    let m: Vec<Machine> = (0..n_machines).map(|_| counting()).collect();
    let mut f = Framework::new(&m, 0.0, 0.0, Instant::now(), StepRng::new(0, 1)).unwrap();
    let _ = f.trigger_events(&[TriggerEvent::NormalRecv], Instant::now()).count();
    f.trigger_events(&[TriggerEvent::NormalRecv], Instant::now()).count()
}

#[test]
fn c08_c10_each_machine_gets_its_own_counter_zero() {
    assert_eq!(run(1), 1, "solo: the machine pads after CounterZero");
    assert_eq!(run(2), 2, "next to an identical neighbour each machine still gets CounterZero");
}
