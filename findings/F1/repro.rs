// F1 (C07, C02): `below_limit_padding` returned `true` as soon as a fraction limit was set and no
// packet had been counted yet, skipping the per-state limit and the framework-wide fraction.
// Public API only.  Fails on the pinned tree (3533378), passes with the fix.
use enum_map::enum_map;
use maybenot::action::Action;
use maybenot::dist::{Dist, DistType};
use maybenot::event::Event;
use maybenot::state::{State, Trans};
use maybenot::{Framework, Machine, MachineId, TriggerAction, TriggerEvent};
use rand::rngs::mock::StepRng;
use std::time::Instant;

fn c(v: f64) -> Dist {
    Dist::new(DistType::Uniform { low: v, high: v }, 0.0, 0.0)
}

fn pad_machine(max_padding_frac: f64, limit: Option<f64>) -> Machine {
    let mut s0 = State::new(enum_map! { Event::NormalRecv => vec![Trans(1, 1.0)], _ => vec![] });
    s0.action = None;
    let mut s1 = State::new(enum_map! { Event::NormalRecv => vec![Trans(1, 1.0)], _ => vec![] });
    s1.action = Some(Action::SendPadding { bypass: false, replace: false, timeout: c(1.0), limit: limit.map(c) });
    Machine::new(0, max_padding_frac, 0, 0.0, vec![s0, s1]).unwrap()
}

#[test]
fn c07_sampled_limit_of_zero_yields_no_action() {
    let m = vec![pad_machine(0.5, Some(0.0))];
    let mut f = Framework::new(&m, 0.0, 0.0, Instant::now(), StepRng::new(0, 1)).unwrap();
    let n = f.trigger_events(&[TriggerEvent::NormalRecv], Instant::now()).count();
    assert_eq!(n, 0, "a state limit sampled as 0 must yield no action");
}

#[test]
fn c02_framework_fraction_is_enforced_before_machine_has_counted_a_packet() {
    let m = vec![pad_machine(0.5, None)];
    let mut f = Framework::new(&m, 0.5, 0.0, Instant::now(), StepRng::new(0, 1)).unwrap();
    // one padding packet reported for an unknown machine: framework-wide fraction is 1/1 >= 0.5
    let _ = f.trigger_events(&[TriggerEvent::PaddingSent { machine: MachineId::from_raw(7) }], Instant::now()).count();
    let acts: Vec<TriggerAction> = f.trigger_events(&[TriggerEvent::NormalRecv], Instant::now()).cloned().collect();
    assert!(acts.is_empty(), "padding returned although the framework-wide padding fraction is 1.0 >= 0.5: {:?}", acts);
}
