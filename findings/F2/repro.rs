// F2 (C12): NaN passed validation as a fraction and as a transition probability.
use enum_map::enum_map;
use maybenot::event::Event;
use maybenot::state::{State, Trans};
use maybenot::Machine;

fn ok_state() -> State {
    State::new(enum_map! { Event::NormalRecv => vec![Trans(0, 1.0)], _ => vec![] })
}

#[test]
fn c12_nan_fraction_is_rejected() {
    assert!(Machine::new(0, f64::NAN, 0, 0.0, vec![ok_state()]).is_err(), "NaN max_padding_frac accepted");
    assert!(Machine::new(0, 0.0, 0, f64::NAN, vec![ok_state()]).is_err(), "NaN max_blocking_frac accepted");
}

#[test]
fn c12_nan_probability_is_rejected() {
    let s = State::new(enum_map! { Event::NormalRecv => vec![Trans(0, f32::NAN)], _ => vec![] });
    assert!(Machine::new(0, 0.0, 0, 0.0, vec![s]).is_err(), "NaN transition probability accepted");
}

#[test]
fn c12_controls() {
    assert!(Machine::new(0, 1.0, 0, 0.0, vec![ok_state()]).is_ok());
    assert!(Machine::new(0, 1.5, 0, 0.0, vec![ok_state()]).is_err());
    let s = State::new(enum_map! { Event::NormalRecv => vec![Trans(0, 0.6), Trans(1, 0.6)], _ => vec![] });
    assert!(Machine::new(0, 0.0, 0, 0.0, vec![s, ok_state()]).is_err());
}
